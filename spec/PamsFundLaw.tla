----------------------------- MODULE PamsFundLaw -----------------------------
(* The return law of the fundamental prices in rationals (C12):  r = diag(vol) L z + drift,  p' = p exp(r),
   where L is the Cholesky factor of the correlation matrix.  Rows of L are given with a common denominator. *)
EXTENDS Naturals, Integers, Sequences, FiniteSets, SequencesExt, FiniteSetsExt

\* ---- the return law in rationals: rows of L with a common denominator den (unit rows => L L^T = corr)
Dot(x, y) == FoldLeft(LAMBDA acc, i : acc + x[i] * y[i], 0, [i \in 1..Len(x) |-> i])
\* corr[i][j] * den^2 = rows[i] . rows[j]
CorrNum(rows, i, j) == Dot(rows[i], rows[j])
UnitRows(rows, den) == \A i \in 1..Len(rows) : Dot(rows[i], rows[i]) = den * den
LowerTriangular(rows) == \A i \in 1..Len(rows) : \A j \in 1..Len(rows[i]) : j > i => rows[i][j] = 0
\* expected log-return of market i (x 10^6) for draw z: vol_i (L z)_i + drift_i, vols in 1/64, drifts in 1/1024
Ret6(rows, den, vols64, drifts1024, z, i) == (vols64[i] * Dot(rows[i], z) * 15625) \div den + (drifts1024[i] * 15625) \div 16
=============================================================================
