SPECIFICATION Spec
CONSTANTS
  NMk = 3
  CHUNK = 2
  Horizon = 6
  MaxChanges = 2
  StartAt <- cStart
INVARIANT InitialKept
INVARIANT PastKept
INVARIANT SameLength
INVARIANT Covered
INVARIANT LateHoldsInitial
PROPERTY PrefixKept
PROPERTY ChangeTouchesOnlyItsSlot
PROPERTY StartNeverGenerated
CHECK_DEADLOCK FALSE
