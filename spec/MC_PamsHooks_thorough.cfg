SPECIFICATION Spec
CONSTANTS
  Kinds <- cKinds
  Times <- cTimes
  TimeLists <- cLists
  NEvents = 2
  IsIdx <- cIdx
  MaxReg = 3
  MaxTrig = 2
VIEW view
INVARIANT ExactlyOnce
INVARIANT OnlyRegistered
INVARIANT TableSound
INVARIANT DispatchOrder
PROPERTY RegistryStable
CHECK_DEADLOCK FALSE
