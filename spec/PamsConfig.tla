----------------------------- MODULE PamsConfig -----------------------------
(***************************************************************************)
(* Configuration expansion of PAMS as pure operators (C18):                *)
(*   Extend      settings inheritance through "extends"                    *)
(*               (utils/json_extends.py)                                   *)
(*   GroupSize   entities created by a count or an inclusive id range      *)
(*               (runners/sequential.py _generate_markets / _agents)       *)
(*   Accessible  markets an agent can access = union of the listed groups  *)
(*   JrKind / JrValue  dispatch and value of JsonRandom                    *)
(*               (utils/json_random.py)                                    *)
(*   Resolves    class lookup (utils/class_finder.py)                      *)
(* A settings graph G is a sequence of nodes [name, ext, keys] where ext   *)
(* is the parent's name ("" = none) and keys a sequence of <<key, value>>. *)
(***************************************************************************)
EXTENDS TraceBase

NodeIdx(G, n) == FirstIdx(G, LAMBDA x : x.name = n)
KeysOf(nd) == {<<nd.keys[k][1], nd.keys[k][2]>> : k \in 1..Len(nd.keys)}

\* own keys first, then for each remaining key the nearest ancestor defining it, skipping excluded keys;
\* a missing parent or a cycle is an error (never a loop)
RECURSIVE ExtR(_, _, _, _, _)
ExtR(G, acc, cur, hist, excl) ==
  IF cur = "" THEN [st |-> "ok", kv |-> acc]
  ELSE IF NodeIdx(G, cur) = 0 THEN [st |-> "missing", kv |-> {}]
  ELSE IF cur \in hist THEN [st |-> "loop", kv |-> {}]
  ELSE LET nd == G[NodeIdx(G, cur)]
           add == {p \in KeysOf(nd) : p[1] \notin excl /\ ~(\E q \in acc : q[1] = p[1])}
           nxt == IF "extends" \in excl THEN "" ELSE nd.ext IN
       ExtR(G, acc \cup add, nxt, hist \cup {cur}, excl)
Extend(G, start, excl) ==
  LET nd == G[NodeIdx(G, start)] IN ExtR(G, KeysOf(nd), nd.ext, {start}, excl)

\* a group declared with a count n, or an inclusive id range from..to
GroupSize(decl) == CASE decl[1] = "count" -> decl[2]
                     [] decl[1] = "range" -> decl[3] - decl[2] + 1
                     [] decl[1] = "single" -> 1
\* what setup must produce for a list of group declarations: sizes per group, ids 0..N-1 in creation order
TotalSize(decls) == FoldLeft(LAMBDA acc, d : acc + GroupSize(d), 0, decls)

\* JsonRandom: shape of the value -> distribution kind ("error" for malformed specifications)
\* shape = <<tag, arity>> with tag in number | list | const | uniform | normal | expon | unknown | twokeys | <dist>-notlist
JrKind(shape) ==
  CASE shape[1] = "number" -> "const"
    [] shape[1] = "list" -> IF shape[2] = 2 THEN "uniform" ELSE "error"
    [] shape[1] = "const" -> IF shape[2] = 1 THEN "const" ELSE "error"
    [] shape[1] = "uniform" -> IF shape[2] = 2 THEN "uniform" ELSE "error"
    [] shape[1] = "normal" -> IF shape[2] = 2 THEN "normal" ELSE "error"
    [] shape[1] = "expon" -> IF shape[2] = 1 THEN "expon" ELSE "error"
    [] shape[1] = "uniform-real" -> "real"        \* samples of the real generator: only the support is judged
    [] OTHER -> "error"
\* values scaled by 64 with a generator stub returning r = k / 8 (uniform) or z = k / 8 (normal): exact integers
JrUniform64(a, b, k) == 8 * k * (b - a) + 64 * a        \* r (b - a) + a ; support [a, b)
JrNormal64(mu, sigma, k) == 64 * mu + 8 * sigma * k     \* mu + sigma z

\* class lookup: a name resolves iff exactly one class carries it among built-ins and registered classes
Resolves(nBuiltin, nRegistered) == nBuiltin + nRegistered = 1
=============================================================================
