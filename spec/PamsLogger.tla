------------------------------ MODULE PamsLogger ------------------------------
(***************************************************************************)
(* The Logger of pams/logs/base.py (C10: every record reaches the logger   *)
(* exactly once, in order).                                                *)
(*                                                                         *)
(* Reference layer (logs/base.py:292-417):                                 *)
(*   Write / BulkWrite            append to pending_logs                   *)
(*   WriteDirect / BulkDirect     process(logs) at once, pending untouched *)
(*   Flush                        _process(): process(pending); pending=[] *)
(*   process                      routes each record to the handler of its *)
(*                                class, in list order                     *)
(* Log.read_and_write(logger) = Write, read_and_write_with_direct_process  *)
(* = WriteDirect.                                                          *)
(*                                                                         *)
(* Property layer: a record is delivered at most once and, once the queue  *)
(* is flushed, exactly once (ExactlyOnce); to the handler of its kind      *)
(* (Routing); queued records in the order they were written (QueueOrder);  *)
(* a direct record at the call (DirectIsSynchronous); a flush delivers the *)
(* whole queue and nothing else (FlushDelivers).                           *)
(* The history variable act carries the action for the spec -> code replay.*)
(***************************************************************************)
EXTENDS PamsLoggerOps, TLC

CONSTANTS Kinds,      \* record kinds used (subset of LogKinds)
          MaxLogs,    \* records 1..MaxLogs
          MaxBulk     \* longest list handed to a bulk call

VARIABLES pending,    \* pending_logs: sequence of records <<id, kind>>
          delivered,  \* every handler call so far: <<id, kind of the record, handler that received it>>
          queued,     \* ids written through the queue, in write order (ghost)
          nxt, act
vars == <<pending, delivered, queued, nxt, act>>
view == <<pending, delivered, queued, nxt>>

Init == pending = <<>> /\ delivered = <<>> /\ queued = <<>> /\ nxt = 1 /\ act = <<"init">>

Recs(ks) == [i \in 1..Len(ks) |-> <<nxt + i - 1, ks[i]>>]
Process(recs) == [i \in 1..Len(recs) |-> <<recs[i][1], recs[i][2], recs[i][2]>>]     \* isinstance dispatch

KindLists == UNION {[1..n -> Kinds] : n \in 0..MaxBulk}

Write(k) ==
  /\ nxt <= MaxLogs
  /\ pending' = Append(pending, <<nxt, k>>) /\ queued' = Append(queued, nxt) /\ nxt' = nxt + 1
  /\ act' = <<"write", k>> /\ UNCHANGED delivered
BulkWrite(ks) ==
  /\ nxt + Len(ks) - 1 <= MaxLogs
  /\ pending' = pending \o Recs(ks) /\ queued' = queued \o [i \in 1..Len(ks) |-> nxt + i - 1] /\ nxt' = nxt + Len(ks)
  /\ act' = <<"bulk_write", ks>> /\ UNCHANGED delivered
WriteDirect(k) ==
  /\ nxt <= MaxLogs
  /\ delivered' = delivered \o Process(<<<<nxt, k>>>>) /\ nxt' = nxt + 1
  /\ act' = <<"direct", k>> /\ UNCHANGED <<pending, queued>>
BulkDirect(ks) ==
  /\ nxt + Len(ks) - 1 <= MaxLogs
  /\ delivered' = delivered \o Process(Recs(ks)) /\ nxt' = nxt + Len(ks)
  /\ act' = <<"bulk_direct", ks>> /\ UNCHANGED <<pending, queued>>
Flush ==
  /\ delivered' = delivered \o Process(pending) /\ pending' = <<>>
  /\ act' = <<"flush">> /\ UNCHANGED <<queued, nxt>>

Next == \/ \E k \in Kinds : Write(k) \/ WriteDirect(k)
        \/ \E ks \in KindLists : BulkWrite(ks) \/ BulkDirect(ks)
        \/ Flush
Spec == Init /\ [][Next]_vars

\* ------------------------------------------------------------------ property layer
Ids(s) == [i \in 1..Len(s) |-> s[i][1]]
AtMostOnce == NoDup(Ids(delivered))
ExactlyOnce == pending = <<>> => (AtMostOnce /\ {delivered[i][1] : i \in 1..Len(delivered)} = 1..(nxt - 1))
Routing == \A i \in 1..Len(delivered) : delivered[i][3] = delivered[i][2]
NothingLost == \A id \in 1..(nxt - 1) : (\E i \in 1..Len(delivered) : delivered[i][1] = id) \/ (\E i \in 1..Len(pending) : pending[i][1] = id)
QueueOrder ==     \* the queued records that were delivered came out in write order, and the rest still waits in write order
  LET dq == SelectSeq(Ids(delivered), LAMBDA id : \E i \in 1..Len(queued) : queued[i] = id) IN
  dq \o Ids(pending) = queued
DirectIsSynchronous ==
  [][(act'[1] = "direct" => delivered' = Append(delivered, <<nxt, act'[2], act'[2]>>))
     /\ (act'[1] \in {"write", "bulk_write"} => delivered' = delivered)]_vars
FlushDelivers == [][act'[1] = "flush" => (Ids(delivered') = Ids(delivered) \o Ids(pending) /\ pending' = <<>>)]_vars
=============================================================================
