---- MODULE MC_PamsHooks_thorough ----
\* every registry history of up to 3 registrations (two kinds, time lists with a repeated time, all filters) and
\* 2 occurrences
EXTENDS PamsHooks
cKinds == {"order_before", "market_after"}
cTimes == {0, 1}
cLists == {<<NoTime>>, <<>>, <<0>>, <<1>>, <<0, 1>>, <<1, 1>>, <<1, 0, 1>>}
cIdx == <<FALSE, TRUE>>
====
