------------------------------- MODULE TraceLog -------------------------------
(***************************************************************************)
(* C10: the logger receives exactly one record for every accepted order,   *)
(* accepted cancel, fill and expiry, in the order in which they happened,  *)
(* with fields equal to the event's actual values, plus begin / end        *)
(* records; step records synchronously, all others no later than the next  *)
(* session boundary.                                                       *)
(* Ground truth (`truth`) is built from the market probes (acc, canc,      *)
(* round, tick events); deliveries are the process_* calls of a Logger     *)
(* subclass (lp, stepB, stepE, sessB, sessE, simB, simE events).           *)
(* Expiries of one clock step are simultaneous: any delivery order within  *)
(* one market's expiry set is accepted.                                    *)
(***************************************************************************)
EXTENDS TraceBase, TLC, Json, IOUtils

VARIABLES tid, l, truth, nd, ords, sync, cnt, v
tvars == <<tid, l, truth, nd, ords, sync, cnt, v>>

TraceLog_ == ndJsonDeserialize(IOEnv.TRACE_FILE)
N == Len(TraceLog_)
Hd == TraceLog_[tid]
Ev == Hd.ev
F(cur, cond, tag) == Fl(cur, cond, tag, l)
NM == Len(Hd.idx)

\* truth entries: [ref |-> <<...>>, f |-> <<fields>>, grp |-> expiry group or 0]
Init == /\ tid \in 1..N /\ l = 1
        /\ truth = <<>> /\ nd = 0 /\ ords = <<>> /\ sync = ""
        /\ cnt = [simB |-> 0, simE |-> 0, sessB |-> 0, sessE |-> 0, stepB |-> 0, stepE |-> 0]
        /\ v = [C10 |-> "ok"]

OrdOf(m, id) == LET i == FirstIdx(ords, LAMBDA o : o.m = m /\ o.id = id) IN ords[i]
KnownOrd(m, id) == FirstIdx(ords, LAMBDA o : o.m = m /\ o.id = id) # 0

\* the record of a fill carries the market clock of the round (e.t) and the owners of the two orders as accepted;
\* the reference key (how a delivery is recognised) is taken from the log object itself
FillTruth(e) ==
  [k \in 1..Len(e.fills) |->
     LET f == e.fills[k]
         ba == IF KnownOrd(e.m, f[1]) THEN OrdOf(e.m, f[1]).a ELSE f[5]
         sa == IF KnownOrd(e.m, f[2]) THEN OrdOf(e.m, f[2]).a ELSE f[6] IN
     [ref |-> <<"e", f[8], f[7], f[1], f[2], f[4], f[3]>>, f |-> <<e.t, ba, sa, f[1], f[2], f[3], f[4]>>, grp |-> 0]]
ExpTruth(e) ==
  [k \in 1..Len(e.exp) |->
     LET id == e.exp[k][1] IN
     IF KnownOrd(e.m, id)
     THEN LET o == OrdOf(e.m, id) IN
          [ref |-> <<"x", e.m, id>>, f |-> <<e.t, o.a, o.buy, o.mo, o.px, e.exp[k][2], o.ttl, o.t>>, grp |-> l]
     ELSE [ref |-> <<"x", e.m, id>>, f |-> <<>>, grp |-> l]]

\* a delivery: consume the head of the undelivered truth (any member of the head expiry group)
Deliver(e, vv) ==
  LET ref == e.ref
      head == IF nd < Len(truth) THEN truth[nd + 1] ELSE [ref |-> <<>>, f |-> <<>>, grp |-> 0]
      grpEnd == IF head.grp = 0 THEN nd + 1
                ELSE CHOOSE j \in (nd + 1)..Len(truth) :
                       /\ \A i \in (nd + 1)..j : truth[i].grp = head.grp
                       /\ (j = Len(truth) \/ truth[j + 1].grp # head.grp)
      cand == {i \in (nd + 1)..(IF nd < Len(truth) THEN grpEnd ELSE nd) : truth[i].ref = ref}
      already == \E i \in 1..nd : truth[i].ref = ref
      later == \E i \in (nd + 1)..Len(truth) : truth[i].ref = ref IN
  IF cand # {}
  THEN LET j == CHOOSE i \in cand : TRUE
           t2 == [truth EXCEPT ![nd + 1] = truth[j], ![j] = truth[nd + 1]] IN
       <<t2, nd + 1, [vv EXCEPT !.C10 = F(@, truth[j].f # <<>> /\ e.f # truth[j].f, "C10:fields-" \o e.kind)]>>
  ELSE <<truth, nd, [vv EXCEPT !.C10 = F(F(F(@, already, "C10:duplicate-" \o e.kind),
                                            later, "C10:order-or-missing-before-" \o e.kind),
                                            TRUE, "C10:extra-" \o e.kind)]>>

Bump(c, k) == [c EXCEPT ![k] = @ + 1]
AllDelivered(vv, what) == [vv EXCEPT !.C10 = F(@, nd # Len(truth), "C10:late-or-missing-at-" \o what)]

Step ==
  /\ l <= Len(Ev) /\ l' = l + 1 /\ tid' = tid
  /\ LET e == Ev[l]
         \* a step record must be delivered before anything else happens (deliveries of older records and the
         \* flush itself may come in between: the logger path used is not part of the property)
         v0 == [v EXCEPT !.C10 = F(@, sync # "" /\ e.k \notin {sync, "lp", "flush"}, "C10:step-record-not-synchronous")] IN
     CASE e.k = "acc" ->
            /\ truth' = Append(truth, [ref |-> <<"o", e.m, e.id>>, f |-> <<e.t, e.a, e.buy, e.mo, e.px, e.vol, e.ttl>>, grp |-> 0])
            /\ ords' = Append(ords, [m |-> e.m, id |-> e.id, a |-> e.a, buy |-> e.buy, mo |-> e.mo, px |-> e.px, ttl |-> e.ttl, t |-> e.t])
            /\ v' = v0 /\ sync' = "" /\ UNCHANGED <<nd, cnt>>
       [] e.k = "canc" ->
            \* (e.tm: the market clock when the cancel was handled - not what the Cancel object or the record say)
            /\ truth' = Append(truth, [ref |-> <<"c", e.m, e.id, e.tm>>,
                                       f |-> IF KnownOrd(e.m, e.id)
                                             THEN LET o == OrdOf(e.m, e.id) IN <<e.tm, o.a, o.buy, o.mo, o.px, e.ovol, o.ttl, o.t>>
                                             ELSE <<>>, grp |-> 0])
            /\ v' = v0 /\ sync' = "" /\ UNCHANGED <<nd, ords, cnt>>
       [] e.k = "round" ->
            /\ truth' = truth \o FillTruth(e)
            /\ v' = v0 /\ sync' = "" /\ UNCHANGED <<nd, ords, cnt>>
       [] e.k = "tick" ->
            /\ truth' = truth \o ExpTruth(e)
            /\ v' = v0 /\ sync' = "" /\ UNCHANGED <<nd, ords, cnt>>
       [] e.k = "lp" ->
            LET r == Deliver(e, v0) IN
            /\ truth' = r[1] /\ nd' = r[2] /\ v' = r[3] /\ sync' = sync /\ UNCHANGED <<ords, cnt>>
       [] e.k = "lw" ->
            /\ sync' = IF e.kind \in {"stepB", "stepE"} THEN e.kind ELSE sync
            /\ v' = v0
            /\ UNCHANGED <<truth, nd, ords, cnt>>
       [] e.k = "flush" ->
            /\ v' = v0 /\ UNCHANGED <<truth, nd, ords, cnt, sync>>
       [] e.k \in {"stepB", "stepE"} ->
            /\ cnt' = Bump(cnt, e.k) /\ sync' = ""
            /\ v' = [v0 EXCEPT !.C10 = F(@, sync # e.k, "C10:step-record-not-synchronous")]
            /\ UNCHANGED <<truth, nd, ords>>
       [] e.k = "simB" ->
            /\ cnt' = Bump(cnt, "simB") /\ sync' = ""
            /\ v' = [v0 EXCEPT !.C10 = F(@, cnt.simB # 0 \/ cnt.sessB # 0, "C10:simulation-begin-record")]
            /\ UNCHANGED <<truth, nd, ords>>
       [] e.k = "sessB" ->
            /\ cnt' = [Bump(cnt, "sessB") EXCEPT !.stepB = 0, !.stepE = 0] /\ sync' = ""
            /\ v' = AllDelivered([v0 EXCEPT !.C10 = F(@, cnt.simB # 1 \/ cnt.sessB # cnt.sessE \/ e.s # cnt.sessB,
                                                      "C10:session-begin-record")], "session-begin")
            /\ UNCHANGED <<truth, nd, ords>>
       [] e.k = "sessE" ->
            /\ cnt' = Bump(cnt, "sessE") /\ sync' = ""
            /\ v' = AllDelivered([v0 EXCEPT !.C10 = F(F(@, cnt.sessB # cnt.sessE + 1 \/ e.s # cnt.sessE, "C10:session-end-record"),
                                                      cnt.stepB # Hd.sess[e.s + 1][1] * NM \/ cnt.stepE # cnt.stepB,
                                                      "C10:step-record-count")], "session-end")
            /\ UNCHANGED <<truth, nd, ords>>
       [] e.k = "simE" ->
            /\ cnt' = Bump(cnt, "simE") /\ sync' = ""
            /\ v' = AllDelivered([v0 EXCEPT !.C10 = F(@, cnt.simE # 0 \/ cnt.sessE # Len(Hd.sess) \/ cnt.sessB # cnt.sessE,
                                                      "C10:simulation-end-record")], "simulation-end")
            /\ UNCHANGED <<truth, nd, ords>>
       [] e.k = "abort" ->
            /\ v' = [v EXCEPT !.C10 = F(@, e.phase = "log", "C10:run-aborted-in-log-" \o e.exc)]
            /\ UNCHANGED <<truth, nd, ords, sync, cnt>>
       [] OTHER -> /\ v' = v /\ UNCHANGED <<truth, nd, ords, sync, cnt>>

Done == l = Len(Ev) + 1
\* a run that was not aborted must have ended with the simulation-end record
Final == IF Len(Ev) > 0 /\ Ev[Len(Ev)].k # "abort" /\ cnt.simE # 1
         THEN [v EXCEPT !.C10 = IF @ = "ok" THEN "C10:no-simulation-end-record@end" ELSE @] ELSE v
Report == Done => PrintT(<<"VERDICT", tid, TRUE, Final>>)
Spec == Init /\ [][Step]_tvars
=============================================================================
