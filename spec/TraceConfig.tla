------------------------------ MODULE TraceConfig ------------------------------
(***************************************************************************)
(* C18 as decision tables replayed into the real code: every case was run  *)
(* through json_extends / SequentialRunner._setup / Session.setup /         *)
(* JsonRandom.random / find_class (harness/drive_config.py); this          *)
(* specification compares each recorded outcome with the model             *)
(* (PamsConfig).  One NDJSON line = one batch of cases [cs |-> <<...>>].   *)
(***************************************************************************)
EXTENDS PamsConfig, TLC, Json, IOUtils
VARIABLES tid, done
TraceLog_ == ndJsonDeserialize(IOEnv.TRACE_FILE)
N == Len(TraceLog_)
Init == tid \in 1..N /\ done = FALSE
Next == ~done /\ done' = TRUE /\ tid' = tid
Spec == Init /\ [][Next]_<<tid, done>>

SeqToSet(s) == {s[k] : k \in 1..Len(s)}
Pairs(s) == {<<s[k][1], s[k][2]>> : k \in 1..Len(s)}
Distinct(s) == Cardinality(SeqToSet(s)) = Len(s)

\* clause violated by one case, "" if none
Bad(c) ==
  CASE c.c = "ext" ->
         LET r == Extend(c.G, c.start, SeqToSet(c.excl)) IN
         IF c.st = "hang" THEN "extends-does-not-terminate"
         ELSE IF r.st # c.st THEN "extends-" \o r.st \o "-expected-got-" \o c.st
         ELSE IF r.st = "ok" /\ Pairs(c.kv) # r.kv THEN "extends-merged-settings"
         ELSE IF ~c.intact THEN "extends-modified-the-settings" ELSE ""
    [] c.c = "setup" ->
         \* groups: declarations and what Simulator holds after setup: per group the ids and names created
         IF c.out # "ok" THEN "setup-raised-" \o c.out
         ELSE LET bad == {g \in 1..Len(c.decls) : Len(c.ids[g]) # GroupSize(c.decls[g])}
                  allIds == FoldLeft(LAMBDA acc, g : acc \o g, <<>>, c.ids)
                  allNames == FoldLeft(LAMBDA acc, g : acc \o g, <<>>, c.names) IN
              IF bad # {} THEN "group-size"
              ELSE IF allIds # [k \in 1..Len(allIds) |-> k - 1] THEN "ids-not-consecutive"
              ELSE IF ~Distinct(allNames) THEN "names-not-unique"
              ELSE IF Len(allIds) # TotalSize(c.decls) THEN "group-size" ELSE ""
    [] c.c = "access" ->
         \* expected: for every agent group, the union of the market ids of the groups it lists
         IF \E a \in 1..Len(c.lists) :
              SeqToSet(c.acc[a]) # UNION {SeqToSet(c.mids[g + 1]) : g \in SeqToSet(c.lists[a])}
         THEN "accessible-markets" ELSE ""
    [] c.c = "jr" ->
         LET kind == JrKind(c.shape) IN
         IF (kind = "error") # (c.res = "error") THEN "random-dispatch"
         ELSE IF kind = "const" /\ c.x64 # 64 * c.a THEN "random-constant-value"
         ELSE IF kind = "uniform" /\ c.x64 # JrUniform64(c.a, c.b, c.k) THEN "random-uniform-value"
         ELSE IF kind = "uniform" /\ c.a < c.b /\ ~(c.x64 >= 64 * c.a /\ c.x64 < 64 * c.b) THEN "random-uniform-support"
         ELSE IF kind = "normal" /\ c.x64 # JrNormal64(c.a, c.b, c.k) THEN "random-normal-value"
         ELSE IF kind = "expon" /\ ~c.ok THEN "random-exponential-value"
         ELSE IF kind \in {"uniform", "expon", "real"} /\ ~c.sup THEN "random-support" ELSE ""
    [] c.c = "win" ->
         \* an integer parameter of a built-in agent configured as a range [a, b] is drawn from [a, b): a <= value < b
         IF c.out # "ok" THEN "agent-setup-raised-" \o c.out
         ELSE IF c.tw < c.a \/ c.tw >= c.b \/ c.tr < c.ra \/ c.tr >= c.rb THEN "random-integer-parameter-outside-its-range" ELSE ""
    [] c.c = "cls" ->
         IF Resolves(c.nb, c.nr) # (c.res = "ok") THEN "class-lookup"
         ELSE IF c.res = "ok" /\ ~c.right THEN "class-lookup-wrong-class" ELSE ""
    [] c.c = "legacy" ->
         \* both spellings configure the same session, and what they configure is what the configuration says
         IF c.old # c.new THEN "legacy-key-" \o c.key
         ELSE IF <<c.old[5], c.old[6]>> # c.want THEN "legacy-key-not-what-was-configured-" \o c.key ELSE ""
    [] OTHER -> "unknown-case"

Verdict(h) ==
  LET bad == {i \in 1..Len(h.cs) : Bad(h.cs[i]) # ""} IN
  IF bad = {} THEN "ok"
  ELSE LET i == CHOOSE x \in bad : \A y \in bad : x <= y IN "C18:" \o Bad(h.cs[i]) \o "@" \o ToString(i)
Report == done => PrintT(<<"VERDICT", tid, TRUE, [C18 |-> Verdict(TraceLog_[tid])]>>)
=============================================================================
