------------------------------ MODULE PamsHalt ------------------------------
(***************************************************************************)
(* Design model of TradingHaltRule (events/trading_halt_rule.py) composed  *)
(* with the session / step skeleton of the runner: how the rule's two      *)
(* hooks move Market._is_running and the SESSION's execution switch, for   *)
(* several rules, several target markets and halts that outlive their      *)
(* session.  Price paths are abstracted: after every round on a target     *)
(* market TLC chooses whether the price is beyond the moving halt line.    *)
(*                                                                         *)
(* VARIANT = "asis"  : the rule as found in the pinned tree (one start     *)
(*   time per rule, resume hook without a halt record).  TLC finds fills   *)
(*   in sessions configured without execution (C09) - kept as a            *)
(*   regression configuration that MUST fail (MC_PamsHalt_asis).           *)
(* VARIANT = "fixed" : the repaired rule (per-market record of the session *)
(*   and time of the halt; resume only recorded markets; restore the       *)
(*   switches only while still in that session; switch execution back on   *)
(*   only when every market runs again).                                   *)
(***************************************************************************)
EXTENDS Naturals, Sequences, FiniteSets, TLC

CONSTANTS M,          \* number of markets 1..M, processed in list order
          Rules,      \* sequence of target sets (one per configured rule)
          L,          \* haltingTimeLength (same for all rules)
          SessSteps,  \* sequence of session lengths
          SessExec,   \* sequence of configured withOrderExecution
          MaxRounds,  \* accepted orders per step (state-space bound)
          VARIANT

VARIABLES t, s, k, phase, i, j, rounds, running, sexec, started, hstart, hsess, crashed, fillLog, haltLog
vars == <<t, s, k, phase, i, j, rounds, running, sexec, started, hstart, hsess, crashed, fillLog, haltLog>>

NS == Len(SessSteps)
Mk == 1..M
NR == Len(Rules)

Init == /\ t = 0 /\ s = 1 /\ k = 0 /\ phase = "sessbegin" /\ i = 1 /\ j = 1 /\ rounds = 0
        /\ running = [m \in Mk |-> FALSE] /\ sexec = SessExec
        /\ started = [r \in 1..NR |-> 0]
        /\ hstart = [r \in 1..NR |-> [m \in Mk |-> 0]]
        /\ hsess = [r \in 1..NR |-> [m \in Mk |-> 0]]       \* 0: no halt recorded
        /\ crashed = FALSE /\ fillLog = {} /\ haltLog = {}

\* _iterate_market_updates: every market follows the session's switch at session begin
SessBegin == /\ phase = "sessbegin" /\ s <= NS
             /\ running' = [m \in Mk |-> sexec[s]]
             /\ phase' = "hooks" /\ i' = 1 /\ j' = 1
             /\ UNCHANGED <<t, s, k, rounds, sexec, started, hstart, hsess, crashed, fillLog, haltLog>>

\* market-before hook of rule j for market i (registered only for the rule's targets)
Hook ==
  /\ phase = "hooks" /\ i <= M
  /\ IF j < NR THEN j' = j + 1 /\ i' = i ELSE j' = 1 /\ i' = i + 1
  /\ IF i \notin Rules[j] THEN UNCHANGED <<running, sexec, started, hstart, hsess>>
     ELSE CASE VARIANT = "asis" ->
                 IF t > started[j] + L
                 THEN /\ sexec' = [sexec EXCEPT ![s] = TRUE] /\ running' = [running EXCEPT ![i] = TRUE]
                      /\ started' = [started EXCEPT ![j] = 0] /\ UNCHANGED <<hstart, hsess>>
                 ELSE UNCHANGED <<running, sexec, started, hstart, hsess>>
            [] VARIANT = "fixed" ->
                 IF hsess[j][i] # 0 /\ t > hstart[j][i] + L
                 THEN /\ hsess' = [hsess EXCEPT ![j][i] = 0]
                      /\ started' = [started EXCEPT ![j] = 0]
                      /\ IF hsess[j][i] = s
                         THEN LET r2 == [running EXCEPT ![i] = TRUE] IN
                              /\ running' = r2
                              /\ sexec' = IF \A m \in Mk : r2[m] THEN [sexec EXCEPT ![s] = TRUE] ELSE sexec
                         ELSE UNCHANGED <<running, sexec>>
                      /\ UNCHANGED hstart
                 ELSE UNCHANGED <<running, sexec, started, hstart, hsess>>
  /\ UNCHANGED <<t, s, k, phase, rounds, crashed, fillLog, haltLog>>

HooksDone == /\ phase = "hooks" /\ i = M + 1 /\ phase' = "orders" /\ rounds' = 0
             /\ UNCHANGED <<t, s, k, i, j, running, sexec, started, hstart, hsess, crashed, fillLog, haltLog>>

\* an order accepted on market m, followed (iff the session switch is on) by a round that fills;
\* dev: the price is now beyond the moving line of the rules targeting m
Round(m, dev) ==
  /\ phase = "orders" /\ rounds < MaxRounds /\ ~crashed
  /\ rounds' = rounds + 1
  /\ IF ~sexec[s] THEN UNCHANGED <<running, sexec, started, hstart, hsess, crashed, fillLog, haltLog>>
     ELSE IF ~running[m]
     THEN /\ crashed' = TRUE           \* Market._execute_orders: "market is not running"
          /\ UNCHANGED <<running, sexec, started, hstart, hsess, fillLog, haltLog>>
     ELSE /\ fillLog' = fillLog \cup {<<m, t, s>>}
          /\ crashed' = crashed
          /\ LET hit == {r \in 1..NR : m \in Rules[r]} IN
             IF dev /\ hit # {}
             THEN LET r == CHOOSE x \in hit : \A y \in hit : x <= y IN      \* the first rule halts; later ones see a stopped market
                  /\ running' = [running EXCEPT ![m] = FALSE]
                  /\ sexec' = [sexec EXCEPT ![s] = FALSE]
                  /\ started' = [started EXCEPT ![r] = t]
                  /\ hstart' = [hstart EXCEPT ![r][m] = t] /\ hsess' = [hsess EXCEPT ![r][m] = s]
                  /\ haltLog' = haltLog \cup {<<m, t, s>>}
             ELSE UNCHANGED <<running, sexec, started, hstart, hsess, haltLog>>
  /\ UNCHANGED <<t, s, k, phase, i, j>>

Tick == /\ phase = "orders"
        /\ t' = t + 1
        /\ IF k + 1 < SessSteps[s] THEN /\ k' = k + 1 /\ s' = s /\ phase' = "hooks" /\ i' = 1 /\ j' = 1
           ELSE /\ k' = 0 /\ s' = s + 1 /\ phase' = (IF s + 1 <= NS THEN "sessbegin" ELSE "done") /\ i' = 1 /\ j' = 1
        /\ UNCHANGED <<rounds, running, sexec, started, hstart, hsess, crashed, fillLog, haltLog>>

Next == SessBegin \/ Hook \/ HooksDone \/ (\E m \in Mk, d \in BOOLEAN : Round(m, d)) \/ Tick
Spec == Init /\ [][Next]_vars

\* C09: no fill in a session configured without execution, whatever events are configured
NoFillWithoutExec == \A f \in fillLog : SessExec[f[3]]
\* the run never trips "market is not running"
NoCrash == ~crashed
\* C16: after a halt of m at T in session s no fill on m at T < t <= T+L within that session
HaltRespected == \A h \in haltLog : \A f \in fillLog :
                    (f[1] = h[1] /\ f[3] = h[3] /\ f[2] > h[2]) => f[2] > h[2] + L
\* C16: m runs again at the order phase of step T+L+1 of the same session (unless halted again meanwhile)
Resumed == \A h \in haltLog :
             (phase = "orders" /\ rounds = 0 /\ s = h[3] /\ t = h[2] + L + 1
                /\ ~(\E h2 \in haltLog : h2[1] = h[1] /\ h2[2] > h[2])) => running[h[1]]
\* matching is switched back on once nobody is halted any more in an execution session
SwitchRestored == (phase = "orders" /\ rounds = 0 /\ SessExec[s] /\ \A m \in Mk : running[m]) => sexec[s]
\* a market is stopped only in sessions without execution or while a recorded halt lasts
StoppedOnlyByHalt == (phase = "orders" /\ SessExec[s]) =>
                       \A m \in Mk : ~running[m] => \E h \in haltLog : h[1] = m /\ h[3] = s /\ t <= h[2] + L
=============================================================================
