SPECIFICATION Spec
CONSTANTS
  Kinds <- cKinds
  MaxLogs = 24
  MaxBulk = 3
INVARIANT AtMostOnce
INVARIANT ExactlyOnce
INVARIANT Routing
INVARIANT NothingLost
INVARIANT QueueOrder
PROPERTY DirectIsSynchronous
PROPERTY FlushDelivers
CHECK_DEADLOCK FALSE
