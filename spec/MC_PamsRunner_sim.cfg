SPECIFICATION Spec
CONSTANTS
  NN = 3
  NH = 2
  NM = 2
  IndexMk <- cIndex
  Sess <- cSess
  MaxOrders = 40
INVARIANT Conservation
INVARIANT LogOnce
CHECK_DEADLOCK FALSE
