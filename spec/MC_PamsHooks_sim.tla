---- MODULE MC_PamsHooks_sim ----
\* random registry histories (tlc -simulate) that are replayed into the real Simulator: all nine register names,
\* time lists with repeats, three markets (one index market), registrations interleaved with occurrences
EXTENDS PamsHooks
cKinds == {"order_before", "order_after", "cancel_before", "cancel_after", "execution_after",
           "session_before", "session_after", "market_before", "market_after"}
cTimes == {0, 1, 2, 3}
cLists == {<<NoTime>>, <<>>, <<0>>, <<2>>, <<1, 3>>, <<3, 1>>, <<2, 2>>, <<0, 1, 0>>, <<0, 1, 2, 3>>}
cIdx == <<FALSE, FALSE, TRUE>>
====
