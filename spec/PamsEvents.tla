----------------------------- MODULE PamsEvents -----------------------------
(***************************************************************************)
(* The arithmetic of the built-in events and of the index market as pure   *)
(* operators over integers ("fine" units: 1/FDEN of a tick; rates are      *)
(* fractions num / dnm):                                                   *)
(*   FundamentalPriceShock  Shock           (fundamental_price_shock.py)   *)
(*   OrderMistakeShock      MistakePrice    (order_mistake_shock.py)       *)
(*   PriceLimitRule         Lo Hi Clip      (price_limit_rule.py)          *)
(*   TradingHaltRule        HaltHit         (trading_halt_rule.py)         *)
(*   IndexMarket            WSum WTot       (index_market.py)              *)
(* Used by TraceEvents on recorded runs; TableEvents checks their lemmas   *)
(* over a grid; PamsHalt is the state machine of the halt rule.            *)
(***************************************************************************)
EXTENDS Naturals, Integers, Sequences, FiniteSets, FiniteSetsExt, SequencesExt

FDEN == 1024
AbsV(x) == IF x < 0 THEN -x ELSE x

\* tick rounding of a fine price to the grid (buy down, sell up), result in fine units
RoundFine(x, isBuy) == IF x % FDEN = 0 THEN x ELSE IF isBuy THEN (x \div FDEN) * FDEN ELSE ((x \div FDEN) + 1) * FDEN
\* the same for the rational a / b
RoundRat(a, b, isBuy) == IF a % (b * FDEN) = 0 THEN a \div b
                         ELSE IF isBuy THEN (a \div (b * FDEN)) * FDEN ELSE ((a \div (b * FDEN)) + 1) * FDEN

\* C14: one application of a fundamental shock of rate num / dnm
Shock(x, num, dnm) == (x * (dnm + num)) \div dnm
ShockExact(x, num, dnm) == (x * (dnm + num)) % dnm = 0
\* C14: the limit price of the order written by an order-mistake shock: market price x (1 + rate), then tick rounding
MistakePrice(mp, num, dnm) == RoundRat(mp * (dnm + num), dnm, num > 0)

\* C15: band and clipping (PriceLimitRule.get_limited_price)
Lo(p0, num, dnm) == (p0 * (dnm - num)) \div dnm
Hi(p0, num, dnm) == (p0 * (dnm + num)) \div dnm
Inside(req, p0, num, dnm) == AbsV(req - p0) * dnm < AbsV(p0 * num)
Clip(req, p0, num, dnm) == IF Inside(req, p0, num, dnm) THEN req ELSE Min({Max({req, Lo(p0, num, dnm)}), Hi(p0, num, dnm)})
InBandWide(px, p0, num, dnm) == px >= Lo(p0, num, dnm) - FDEN /\ px <= Hi(p0, num, dnm) + FDEN

\* C16: deviation from the time-0 price reaches rate x (halts so far + 1)
HaltHit(p0, px, num, dnm, halts) == AbsV(p0 - px) * dnm >= AbsV(p0 * num) * (halts + 1)

\* C17: share-weighted sums over component ids (0-based) with weights w and values vals (1-based sequences)
WSum(comps, w, vals) == FoldLeft(LAMBDA acc, c : acc + w[c + 1] * vals[c + 1], 0, comps)
WTot(comps, w) == FoldLeft(LAMBDA acc, c : acc + w[c + 1], 0, comps)
=============================================================================
