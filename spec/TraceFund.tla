------------------------------- MODULE TraceFund -------------------------------
(***************************************************************************)
(* C12 on the real pams.fundamentals.Fundamentals (harness/drive_fund.py). *)
(* mode "hist": a history of gets, parameter changes and shocks; after     *)
(*   every operation the harness compared all price lists bit for bit with *)
(*   their previous content and logged which existing indices changed      *)
(*   (chg).  The model keeps genUntil and replays the generation           *)
(*   discipline of PamsFundamentals: an index at or before the kept prefix *)
(*   must never change (C12:past-altered).                                 *)
(* mode "cases": the algebraic probe - the NumPy generator was replaced by *)
(*   one returning chosen draws z; observed log-returns (x 10^6) must      *)
(*   equal vol (L z) + drift for the rational Cholesky rows of the case.   *)
(***************************************************************************)
EXTENDS PamsFundLaw, TLC, Json, IOUtils
VARIABLES tid, l, gU, lenU, vd
vars == <<tid, l, gU, lenU, vd>>
TraceLog_ == ndJsonDeserialize(IOEnv.TRACE_FILE)
N == Len(TraceLog_)
H == TraceLog_[tid]
AbsD(x, y) == IF x > y THEN x - y ELSE y - x

\* ---- histories: fold over events with state <<g, L, verdict>>
\* (the generation discipline of PamsFundamentals: a generation runs to the next start time ahead, else over one chunk)
Starts == IF "starts" \in DOMAIN H THEN H.starts ELSE <<>>
AheadOf(g) == {Starts[i] : i \in {j \in 1..Len(Starts) : Starts[j] > g}}
StepLen(g, ch) == IF AheadOf(g) = {} THEN ch ELSE (CHOOSE x \in AheadOf(g) : \A y \in AheadOf(g) : x <= y) - g
RECURSIVE GenLen(_, _, _, _)
GenLen(g, L, t, ch) == IF t < g THEN <<g, L>> ELSE GenLen(g + StepLen(g, ch), g + 1 + StepLen(g, ch), t, ch)
StepH(st, e, ch, n) ==
  LET g == st[1]  L == st[2]  vd0 == st[3]
      F(cur, cond, tag) == IF cur # "ok" THEN cur ELSE IF cond THEN "C12:" \o tag \o "@" \o ToString(n) ELSE "ok"
      base == F(F(F(vd0, ~e.pos, "not-positive"), ~e.init, "initial-value-changed"),
                \* a market that starts late holds its initial value up to its start; no generation writes there
                \E i \in 1..Len(e.chg) : e.chg[i][1] + 1 <= Len(Starts) /\ e.chg[i][2] <= Starts[e.chg[i][1] + 1] /\ e.k # "shock",
                "late-market-value-before-its-start-altered") IN
  CASE e.k = "get" ->
         LET r == GenLen(g, L, e.t, ch) IN
         <<r[1], r[2], F(F(base, \E i \in 1..Len(e.chg) : e.chg[i][2] <= g, "past-altered-by-generation"),
                         e.out # "ok", "get-raised-" \o e.out)>>
    [] e.k = "chg" ->
         <<e.t, L, F(F(base, \E i \in 1..Len(e.chg) : e.chg[i][2] < e.t, "past-altered-by-parameter-change"), e.out # "ok", "change-raised-" \o e.out)>>
    [] e.k = "shock" ->
         <<e.t, L, F(F(F(base, \E i \in 1..Len(e.chg) : e.chg[i][2] < e.t \/ (e.chg[i][2] = e.t /\ e.chg[i][1] # e.m), "past-altered-by-shock"),
                       ~e.lvl, "does-not-continue-from-changed-level"), e.out # "ok", "shock-raised-" \o e.out)>>
    [] e.k = "neg" ->        \* a change that has to be refused: it raises, nothing moves (genUntil included)
         <<g, L, F(F(base, ~e.refused, "negative-volatility-accepted"), Len(e.chg) > 0, "refused-change-altered-values")>>
    [] e.k = "level" ->      \* zero volatility: the path is exactly level x exp(drift (u - t)) from the last change on
         <<g, L, F(base, ~e.lvl, "zero-volatility-closed-form")>>
    [] OTHER -> <<g, L, base>>
\* ---- algebraic cases
BadCase(c) ==
  IF c.c = "ret" THEN
     IF ~UnitRows(c.rows, c.den) \/ ~LowerTriangular(c.rows) THEN "bad-case"
     ELSE IF \E i \in 1..Len(c.rows) : \E j \in 1..Len(c.rows) : c.corr[i][j] # CorrNum(c.rows, i, j) THEN "bad-case"
     ELSE IF \E s \in 1..Len(c.obs) : \E i \in 1..Len(c.rows) :
               AbsD(c.obs[s][i], Ret6(c.rows, c.den, c.vols, c.drifts, c.zs[s], i)) > 3 THEN "log-return-law"
     ELSE ""
  ELSE IF c.c = "stat" THEN (IF ~c.ok THEN "distribution-" \o c.what ELSE "")
  ELSE "unknown-case"
VerdictCases(h) ==
  LET bad == {i \in 1..Len(h.cs) : BadCase(h.cs[i]) # ""} IN
  IF bad = {} THEN "ok" ELSE LET i == CHOOSE x \in bad : \A y \in bad : x <= y IN "C12:" \o BadCase(h.cs[i]) \o "@" \o ToString(i)

\* one step per recorded operation (histories) or one step for a whole batch of cases
TInit == tid \in 1..N /\ l = 1 /\ gU = 0 /\ lenU = 1 /\ vd = "ok"
NEv == IF H.mode = "hist" THEN Len(H.ev) ELSE 1
TNext ==
  /\ l <= NEv /\ l' = l + 1 /\ tid' = tid
  /\ IF H.mode = "hist"
     THEN LET r == StepH(<<gU, lenU, vd>>, H.ev[l], H.chunk, l) IN gU' = r[1] /\ lenU' = r[2] /\ vd' = r[3]
     ELSE gU' = gU /\ lenU' = lenU /\ vd' = VerdictCases(H)
TSpec == TInit /\ [][TNext]_vars
Done == l = NEv + 1
Report == Done => PrintT(<<"VERDICT", tid, TRUE, [C12 |-> vd]>>)
=============================================================================
