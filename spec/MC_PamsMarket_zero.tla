---- MODULE MC_PamsMarket_zero ----
\* prices next to zero: with Den = 2 a bid requested at 1 unit (half a tick) is accepted at price 0, which is a
\* price and not None (NoPx = -1); every history of up to 3 orders with requests in {1, 2, 3}
EXTENDS PamsMarket
cReq == {1, 2, 3}
====
