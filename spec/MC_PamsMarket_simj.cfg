SPECIFICATION Spec
CONSTANTS
  Den = 2
  P0 = 17
  ReqPrices <- cReq
  Vols = {1, 2, 3, 5}
  TTLs = {0, 1, 2, 4}
  MaxOrders = 10
  MaxClock = 14
  Halts = TRUE
  JumpSizes <- cJumps
INVARIANT MatchInv
INVARIANT NeverRaised
INVARIANT AcctInv
INVARIANT StatsInv
INVARIANT LifetimeInv
CHECK_DEADLOCK FALSE
