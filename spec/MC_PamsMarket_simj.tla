---- MODULE MC_PamsMarket_simj ----
\* constants for random behaviours WITH clock jumps (tlc -simulate) that are replayed into the real Market
EXTENDS PamsMarket
cReq == {14, 15, 16, 17, 18, 19, 20, 21, 22}
cJumps == {2, 3, 5}
====
