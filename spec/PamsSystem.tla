----------------------------- MODULE PamsSystem -----------------------------
(***************************************************************************)
(* The composed system: the run skeleton and scheduler of PamsRunner with  *)
(* REAL markets (PamsMarketOps records: books with prices, volumes and     *)
(* lifetimes, tick rounding, matching by RefMatch, series rows, expiry at  *)
(* clock steps, running flag set from the session) and a priced ledger     *)
(* (PamsLedger).  It is the specification behaviours of which are forced   *)
(* through the real SequentialRunner by harness/replay_system.py: TLC      *)
(* chooses the schedule AND the orders (side, kind, price on / off the     *)
(* grid, volume, lifetime, cancels of own resting orders), the replay      *)
(* compares books, series rows and holdings after every step.              *)
(*                                                                         *)
(* One TradingHaltRule (constant HaltRule, events/trading_halt_rule.py)     *)
(* is part of the composition: after a round with fills on a target market *)
(* that is running, a price that left the band around the time-0 price     *)
(* stops that market, records (session, time) and switches the SESSION's   *)
(* matching off (exOn); before every step the record of a market whose     *)
(* halt is over is dropped and - if it was made in the current session -   *)
(* the market runs again, and matching is switched on again once every     *)
(* market runs.  A record cut short by the end of its session stays behind *)
(* and is dropped without effect when it runs out.                         *)
(*                                                                         *)
(* Agent operations:  <<"none">>                                           *)
(*                    <<"order", m, isBuy, isMarketOrder, price, vol, ttl>>*)
(*                    <<"cancel", m, id>>   (an own order resting on m)    *)
(***************************************************************************)
EXTENDS PamsMarketOps, TLC

CONSTANTS NN, NH,      \* normal agents 1..NN, HFT agents NN+1..NN+NH
          NM,          \* markets 1..NM (no index market here: PamsRunner covers the tick ordering)
          Sess,        \* sequence of [steps, place, exec, maxN, maxH, rate]
          Den, P0,     \* units per tick, initial price (units)
          Prices, Vols, TTLs,
          MaxOrders,   \* bound on accepted orders per market (state-space bound only)
          HaltRule     \* [on, targets (subset of Mk), num, den (trigger rate num/den), len (halting time length)]

VARIABLES phase, s, k, tickTodo,
          remN, nN, coll, todo, inH, remH, nH, handled,
          mk, led, nfills, fillSess,
          exOn,      \* the current session's with_order_execution (a halt switches it off, the resume on)
          hrec,      \* TradingHaltRule.halting_markets: market -> [sess, at] (NoRec: none)
          hcnt,      \* TradingHaltRule.activation_count
          raisedEver,\* a matching round was started on a market that is not running while it had executable orders
          act        \* the action that produced this state, with its arguments (read by the replay)
vars == <<phase, s, k, tickTodo, remN, nN, coll, todo, inH, remH, nH, handled, mk, led, nfills, fillSess, exOn, hrec, hcnt, raisedEver, act>>
NoRec == [sess |-> 0, at |-> -1]

Normal == 1..NN
HFT == (NN + 1)..(NN + NH)
Agents == 1..(NN + NH)
Mk == 1..NM
S == Sess[s]
Cash0 == 100000   Shares0 == 50

\* ------------------------------------------------------------------ what an agent may return
OwnResting(a, m) == {o \in mk[m].live : o.ag = a}
OrderOps == {<<"order", m, b, mo, p, v, ttl>> : m \in Mk, b \in BOOLEAN, mo \in BOOLEAN, p \in Prices, v \in Vols, ttl \in TTLs}
CancelOps(a) == UNION {{<<"cancel", m, o.id>> : o \in OwnResting(a, m)} : m \in Mk}
Ops(a) == {<<"none">>}
          \cup {op \in OrderOps : (op[4] => op[5] = CHOOSE p \in Prices : TRUE) /\ mk[op[2]].nextId < MaxOrders}
          \cup CancelOps(a)
ValidCancel(a, op) == op[1] = "cancel" => \E o \in OwnResting(a, op[2]) : o.id = op[3]

\* ------------------------------------------------------------------ one accepted order / cancel and the round that follows
FillsOf(L, m, r, t) ==      \* PamsLedger fill tuples <<b, s, px, v, buyer, seller, t, market>> (agents, markets 0-based)
  [i \in 1..Len(r.pend) |->
     <<r.pend[i].b, r.pend[i].s, r.px, r.pend[i].v, ById(L, r.pend[i].b).ag - 1, ById(L, r.pend[i].s).ag - 1, t, m - 1>>]
\* holdings: sequence over agents of <<cash, shares_1..shares_NM>> (unit cash scale)
ApplyFill1(L, f) ==
  LET ba == f[5] + 1  sa == f[6] + 1  m == f[8] + 1  amt == f[3] * f[4]  vol == f[4] IN
  [a \in 1..Len(L) |->
     [j \in 1..Len(L[a]) |->
        L[a][j]
        + (IF j = 1 THEN (IF a = sa THEN amt ELSE 0) - (IF a = ba THEN amt ELSE 0) ELSE 0)
        + (IF j = m + 1 THEN (IF a = ba THEN vol ELSE 0) - (IF a = sa THEN vol ELSE 0) ELSE 0)]]
ApplyAll(L, fills) == FoldLeft(LAMBDA acc, f : ApplyFill1(acc, f), L, fills)

\* TradingHaltRule.hooked_after_execution: |p0 - price| >= p0 * rate * (activations + 1), p0 = get_market_price(0)
HaltHit(m1, cnt) ==
  LET p0 == IF m1.clock = 0 THEN m1.row.mkt ELSE m1.hist[1].mkt
      d == IF p0 > m1.row.mkt THEN p0 - m1.row.mkt ELSE m1.row.mkt - p0 IN
  d * HaltRule.den >= p0 * HaltRule.num * (cnt + 1)

Accept(a, op) ==
  LET m == op[2]
      m1 == IF op[1] = "order" THEN MAccept(mk[m], a, op[3], op[4], op[5], op[6], op[7]) ELSE MCancel(mk[m], op[3])
      r == IF exOn THEN MRound(m1) ELSE [m |-> m1, px |-> NoPx, pend |-> <<>>, raised |-> FALSE]
      fills == FillsOf(m1.live, m, r, m1.clock)
      halt == HaltRule.on /\ Len(fills) > 0 /\ m \in HaltRule.targets /\ r.m.running /\ HaltHit(r.m, hcnt) IN
  /\ mk' = [mk EXCEPT ![m] = IF halt THEN MSetRunning(r.m, FALSE) ELSE r.m]
  /\ hrec' = IF halt THEN [hrec EXCEPT ![m] = [sess |-> s, at |-> r.m.clock]] ELSE hrec
  /\ hcnt' = IF halt THEN hcnt + 1 ELSE hcnt
  /\ exOn' = IF halt THEN FALSE ELSE exOn
  /\ raisedEver' = (raisedEver \/ r.raised)
  /\ led' = ApplyAll(led, fills)
  /\ nfills' = nfills + Len(fills)
  /\ fillSess' = IF Len(fills) > 0 THEN fillSess \cup {s} ELSE fillSess

\* TradingHaltRule.hooked_before_step_for_market for the markets m..NM in turn: <<markets, records, session switch>>
RECURSIVE ResumeFold(_, _, _, _)
ResumeFold(m, M, H, ex) ==
  IF m > NM THEN <<M, H, ex>>
  ELSE IF ~HaltRule.on \/ m \notin HaltRule.targets \/ H[m] = NoRec \/ M[m].clock <= H[m].at + HaltRule.len
       THEN ResumeFold(m + 1, M, H, ex)
       ELSE LET H2 == [H EXCEPT ![m] = NoRec] IN
            IF H[m].sess # s THEN ResumeFold(m + 1, M, H2, ex)        \* halted in an earlier session: dropped, no effect
            ELSE LET M2 == [M EXCEPT ![m] = MSetRunning(@, TRUE)] IN
                 ResumeFold(m + 1, M2, H2, IF \A x \in Mk : M2[x].running THEN TRUE ELSE ex)

\* ------------------------------------------------------------------ the run
Init ==
  /\ phase = "tick" /\ s = 1 /\ k = 0 /\ tickTodo = Mk
  /\ remN = {} /\ nN = 0 /\ coll = <<>> /\ todo = {} /\ inH = FALSE /\ remH = {} /\ nH = 0 /\ handled = 0
  /\ mk = [m \in Mk |-> MNew(Den, P0)]
  /\ led = [a \in Agents |-> <<Cash0>> \o [m \in Mk |-> Shares0]]
  /\ nfills = 0 /\ fillSess = {} /\ act = <<"Init">>
  /\ exOn = FALSE /\ hrec = [m \in Mk |-> NoRec] /\ hcnt = 0 /\ raisedEver = FALSE

SchedVars == <<remN, nN, coll, todo, inH, remH, nH, handled>>
MarketVars == <<mk, led, nfills, fillSess, exOn, hrec, hcnt, raisedEver>>

TickMarket(m) ==      \* Market._update_time: the clock, expiry, carry-forward of the series
  /\ act' = <<"TickMarket", m>>
  /\ phase = "tick" /\ m \in tickTodo
  /\ mk' = [mk EXCEPT ![m] = MTick(mk[m], P0)]
  /\ tickTodo' = tickTodo \ {m}
  /\ UNCHANGED <<phase, s, k, SchedVars, led, nfills, fillSess, exOn, hrec, hcnt, raisedEver>>

TickDone ==
  /\ act' = <<"TickDone">>
  /\ phase = "tick" /\ tickTodo = {}
  /\ phase' = IF mk[1].clock = 0 /\ k = 0 /\ s = 1 THEN "sessbegin" ELSE IF k < S.steps THEN "stepbegin" ELSE "sessend"
  /\ UNCHANGED <<s, k, tickTodo, SchedVars, MarketVars>>

SessionBegin ==       \* every market follows the session's execution switch
  /\ act' = <<"SessionBegin">>
  /\ phase = "sessbegin"
  /\ mk' = [m \in Mk |-> MSetRunning(mk[m], S.exec)]
  /\ exOn' = S.exec
  /\ phase' = (IF S.steps > 0 THEN "stepbegin" ELSE "sessend")
  /\ k' = 0
  /\ UNCHANGED <<s, tickTodo, SchedVars, led, nfills, fillSess, hrec, hcnt, raisedEver>>

StepBegin ==
  /\ act' = <<"StepBegin">>
  /\ phase = "stepbegin"
  /\ phase' = IF S.place THEN "collect" ELSE "stepend"
  /\ remN' = Normal /\ nN' = 0 /\ coll' = <<>> /\ handled' = 0
  /\ LET r == ResumeFold(1, mk, hrec, exOn) IN mk' = r[1] /\ hrec' = r[2] /\ exOn' = r[3]
  /\ UNCHANGED <<s, k, tickTodo, todo, inH, remH, nH, led, nfills, fillSess, hcnt, raisedEver>>

Consult(a, op) ==
  /\ act' = <<"Consult", a, op>>
  /\ phase = "collect" /\ nN < S.maxN /\ a \in remN /\ op \in Ops(a) /\ ValidCancel(a, op)
  /\ remN' = remN \ {a}
  /\ IF op[1] = "none" THEN UNCHANGED <<nN, coll>>
     ELSE nN' = nN + 1 /\ coll' = Append(coll, [ag |-> a, op |-> op])
  /\ UNCHANGED <<phase, s, k, tickTodo, todo, inH, remH, nH, handled, MarketVars>>

CollectDone ==
  /\ act' = <<"CollectDone">>
  /\ phase = "collect" /\ (nN >= S.maxN \/ remN = {})
  /\ phase' = "handle" /\ todo' = 1..Len(coll)
  /\ UNCHANGED <<s, k, tickTodo, remN, nN, coll, inH, remH, nH, handled, MarketVars>>

HandleBatch(i, gate) ==
  /\ act' = <<"HandleBatch", i, gate>>
  /\ phase = "handle" /\ ~inH /\ i \in todo
  /\ todo' = todo \ {i} /\ handled' = handled + 1
  /\ Accept(coll[i].ag, coll[i].op)
  /\ (S.rate = 0 => ~gate) /\ (S.rate = 2 => gate)
  /\ inH' = gate /\ remH' = (IF gate THEN HFT ELSE {}) /\ nH' = 0
  /\ UNCHANGED <<phase, s, k, tickTodo, remN, nN, coll>>

ConsultH(h, op) ==
  /\ act' = <<"ConsultH", h, op>>
  /\ phase = "handle" /\ inH /\ nH < S.maxH /\ h \in remH /\ op \in Ops(h) /\ ValidCancel(h, op)
  /\ remH' = remH \ {h}
  /\ IF op[1] = "none" THEN UNCHANGED <<MarketVars, nH>> ELSE Accept(h, op) /\ nH' = nH + 1
  /\ UNCHANGED <<phase, s, k, tickTodo, remN, nN, coll, todo, inH, handled>>

HftDone ==
  /\ act' = <<"HftDone">>
  /\ phase = "handle" /\ inH /\ (nH >= S.maxH \/ remH = {})
  /\ inH' = FALSE
  /\ UNCHANGED <<phase, s, k, tickTodo, remN, nN, coll, todo, remH, nH, handled, MarketVars>>

HandleDone ==
  /\ act' = <<"HandleDone">>
  /\ phase = "handle" /\ ~inH /\ todo = {}
  /\ phase' = "stepend"
  /\ UNCHANGED <<s, k, tickTodo, SchedVars, MarketVars>>

StepEnd ==
  /\ act' = <<"StepEnd">>
  /\ phase = "stepend"
  /\ k' = k + 1 /\ phase' = "tick" /\ tickTodo' = Mk
  /\ UNCHANGED <<s, SchedVars, MarketVars>>

SessionEnd ==
  /\ act' = <<"SessionEnd">>
  /\ phase = "sessend"
  /\ IF s < Len(Sess) THEN s' = s + 1 /\ phase' = "sessbegin" /\ k' = 0 ELSE s' = s /\ phase' = "done" /\ k' = k
  /\ UNCHANGED <<tickTodo, SchedVars, MarketVars>>

Next ==
  \/ (\E m \in Mk : TickMarket(m)) \/ TickDone \/ SessionBegin \/ StepBegin
  \/ (\E a \in Normal : \E op \in Ops(a) : Consult(a, op)) \/ CollectDone
  \/ (\E i \in 1..NN, g \in BOOLEAN : HandleBatch(i, g))
  \/ (\E h \in HFT : \E op \in Ops(h) : ConsultH(h, op))
  \/ HftDone \/ HandleDone \/ StepEnd \/ SessionEnd
Spec == Init /\ [][Next]_vars

\* ================================================================== properties of the composition
\* C05: cash and shares are conserved whatever is traded at whatever price
Conservation ==
  /\ FoldLeft(LAMBDA acc, a : acc + led[a][1], 0, [a \in Agents |-> a]) = Cash0 * (NN + NH)
  /\ \A m \in Mk : FoldLeft(LAMBDA acc, a : acc + led[a][m + 1], 0, [a \in Agents |-> a]) = Shares0 * (NN + NH)
\* C01-C04 on every book the runner can produce
BooksOk == \A m \in Mk : MatchProps(mk[m].live)
Lifetimes == \A m \in Mk : \A o \in mk[m].live : o.ttl # 0 => mk[m].clock <= o.t0 + o.ttl
\* C09 / C16: no fill in a session configured without execution; markets run exactly in execution sessions
NoFillWithoutExec == \A x \in fillSess : Sess[x].exec
InStep == phase \in {"collect", "handle", "stepend"}
Halted(m) == hrec[m] # NoRec /\ hrec[m].sess = s /\ mk[m].clock <= hrec[m].at + HaltRule.len
RunningFollowsSession == (phase \in {"stepbegin", "collect", "handle", "stepend"}) =>
                            \A m \in Mk : (~S.exec => ~mk[m].running) /\ (~HaltRule.on => mk[m].running = S.exec)
\* C16: a market stopped by the rule stays stopped for the configured further steps and runs again at the step after;
\* nothing else stops a market in an execution session; while a market is stopped nothing is matched anywhere in the session
HaltedStaysStopped == InStep => \A m \in Mk : Halted(m) => ~mk[m].running
ResumedOnTime == (InStep /\ S.exec) => \A m \in Mk : ~mk[m].running => Halted(m)
SwitchFollowsHalts == (InStep /\ S.exec) => (exOn <=> \A m \in Mk : mk[m].running)
NeverRaisedInRun == ~raisedEver
\* reachability probes (expected to be VIOLATED where the configuration has a rule: vacuity control of the clauses above)
ProbeNoHaltEver == hcnt = 0
ProbeNoStaleRecord == \A m \in Mk : hrec[m] = NoRec \/ hrec[m].sess = s
ProbeNoResume == ~(\E m \in Mk : hcnt > 0 /\ hrec[m] = NoRec /\ mk[m].running /\ InStep /\ exOn)
OnlyTargetsHalt == \A m \in Mk : hrec[m] # NoRec => (HaltRule.on /\ m \in HaltRule.targets)
\* C09: a round follows every acceptance in an execution session: the touched market is left uncrossed
RoundFollows == [][exOn => \A m \in Mk : (mk'[m].live # mk[m].live /\ phase = "handle") => C03ok(mk'[m].live)]_vars
\* C06: one clock
LockStep == phase # "tick" => \A m1, m2 \in Mk : mk[m1].clock = mk[m2].clock
HistLen == \A m \in Mk : Len(mk[m].hist) = (IF mk[m].clock < 0 THEN 0 ELSE mk[m].clock)
\* C08: what a market's row says about the step equals what happened in it (volume never negative, price positive)
RowsSane == \A m \in Mk : mk[m].row.eVol >= 0 /\ mk[m].row.mkt > 0 /\ (mk[m].row.last # NoPx => mk[m].row.mkt = mk[m].row.last)
=============================================================================
