--------------------------- MODULE PamsMarketOps ---------------------------
(***************************************************************************)
(* One market (pams/market.py) as a record and its transitions as pure     *)
(* operators, so that the single-market state machine (PamsMarket), the    *)
(* run-level state machine (PamsRunner) and every trace specification use  *)
(* the same definitions.                                                   *)
(*                                                                         *)
(* market record  [den, live, clock, nextId, running, row, hist]           *)
(*   den     units per tick (prices are integers in units, see PamsOrder)  *)
(*   live    resting orders (both sides)                                   *)
(*   clock   Market.time (-1 before the first tick)                        *)
(*   nextId  Market._next_order_id                                         *)
(*   running Market._is_running                                            *)
(*   row     the eight per-time series at the current time                 *)
(*           [mkt, last, mid, fund, eVol, eTot, nB, nS]  (0 = None)        *)
(*   hist    rows of past times 0..clock-1 (never rewritten: C06)          *)
(***************************************************************************)
EXTENDS PamsBook

\* ---------------------------------------------------------------- tick rounding (market.py:758-765)
\* buy prices are rounded down, sell prices up, on-grid prices are kept (C19)
RoundToTick(req, den, isBuy) ==
  IF req % den = 0 THEN req
  ELSE IF isBuy THEN (req \div den) * den ELSE ((req \div den) + 1) * den
\* the lemmas of C19 for one case
C19ok(req, den, isBuy, px) ==
  /\ px % den = 0                                     \* on the grid
  /\ (req % den = 0 => px = req)                      \* grid prices unchanged
  /\ (isBuy => px <= req) /\ (~isBuy => px >= req)    \* never more aggressive
  /\ (IF px > req THEN px - req ELSE req - px) < den  \* moved by less than one tick

\* ---------------------------------------------------------------- rows
NewRow(p0) == [mkt |-> p0, last |-> NoPx, mid |-> NoPx, fund |-> 0, eVol |-> 0, eTot |-> 0, nB |-> 0, nS |-> 0]

MidOf(L) == LET bb == BestPx(L, TRUE) bs == BestPx(L, FALSE) IN
            IF bb = NoPx \/ bs = NoPx THEN NoPx ELSE (bb + bs) \div 2

\* Market._update_market_price: refresh mid from the best quotes; market price follows the last
\* trade, else the mid, else stays - but only while the market is running
Refresh(row, L, running) ==
  LET mid == MidOf(L) IN
  [row EXCEPT !.mid = mid,
              !.mkt = IF ~running THEN @ ELSE IF row.last # NoPx THEN row.last ELSE IF mid # NoPx THEN mid ELSE @]

\* ---------------------------------------------------------------- transitions
MNew(den, p0) == [den |-> den, live |-> {}, clock |-> -1, nextId |-> 0, running |-> FALSE,
                  row |-> NewRow(p0), hist |-> <<>>]

\* Market._update_time (market.py:599-634)
MTick(m, fund) ==
  LET now == m.clock + 1
      r == m.row IN
  [m EXCEPT !.clock = now,
            !.live = m.live \ Expired(m.live, now),
            !.hist = IF now > 0 THEN Append(@, r) ELSE @,
            !.row = IF now = 0 THEN [r EXCEPT !.fund = fund]
                    ELSE [mkt |-> IF ~m.running THEN r.mkt
                                  ELSE IF r.last # NoPx THEN r.last ELSE IF r.mid # NoPx THEN r.mid ELSE r.mkt,
                          last |-> r.last, mid |-> r.mid, fund |-> fund,
                          eVol |-> 0, eTot |-> 0, nB |-> 0, nS |-> 0]]

\* Market._set_time (market.py:544-597): the clock JUMPS to `to` > m.clock >= 0.  The steps in between are never recorded
\* (their price series hold no value, their counters are zero).  What the new time shows is NOT what the current row
\* carried: each price series takes the last value it ever held (if the sum of the values it held is positive - the code
\* tests `sum(...) > 0`), so a mid price that had become unknown comes back; the market price of a running market follows
\* the trade / the quotes only when the step before `to` holds them (i.e. only for a jump of one step).
SkipRow == [mkt |-> NoPx, last |-> NoPx, mid |-> NoPx, fund |-> NoPx, eVol |-> 0, eTot |-> 0, nB |-> 0, nS |-> 0]
KnownVals(seq) == SelectSeq(seq, LAMBDA x : x > NoPx)      \* (the sentinels NoPx and BadPx lie below every price)
CarriedVal(seq) == LET k == KnownVals(seq) IN
                   IF Len(k) > 0 /\ FoldLeft(LAMBDA a, b : a + b, 0, k) > 0 THEN k[Len(k)] ELSE NoPx
MJump(m, to, fund) ==
  LET past == Append(m.hist, m.row) \o [i \in 1..(to - m.clock - 1) |-> SkipRow]      \* rows of times 0 .. to-1
      lastC == CarriedVal([i \in 1..Len(past) |-> past[i].last])
      midC == CarriedVal([i \in 1..Len(past) |-> past[i].mid])
      mktC == CarriedVal([i \in 1..Len(past) |-> past[i].mkt])
      prev == past[Len(past)]                                                            \* the row of time to-1
      mktN == IF ~m.running THEN mktC
              ELSE IF prev.last # NoPx THEN lastC ELSE IF prev.mid # NoPx THEN midC ELSE mktC IN
  [m EXCEPT !.clock = to,
            !.live = m.live \ Expired(m.live, to),
            !.hist = past,
            !.row = [mkt |-> mktN, last |-> lastC, mid |-> midC, fund |-> fund, eVol |-> 0, eTot |-> 0, nB |-> 0, nS |-> 0]]

\* Market._add_order (market.py:743-790); req = requested price in units (ignored for market orders)
AcceptedOrder(m, ag, isBuy, isMo, req, vol, ttl) ==
  MkOrder(m.nextId, ag, isBuy, isMo, RoundToTick(req, m.den, isBuy), vol, m.clock, ttl)
MAccept(m, ag, isBuy, isMo, req, vol, ttl) ==
  LET o == AcceptedOrder(m, ag, isBuy, isMo, req, vol, ttl)
      L2 == m.live \cup {o}
      r1 == Refresh(m.row, L2, m.running) IN
  [m EXCEPT !.live = L2, !.nextId = @ + 1,
            !.row = IF isBuy THEN [r1 EXCEPT !.nB = @ + 1] ELSE [r1 EXCEPT !.nS = @ + 1]]

\* Market._cancel_order (market.py:636-670): removes the order if it still rests, refreshes quotes
MCancel(m, id) ==
  LET L2 == {o \in m.live : o.id # id} IN
  [m EXCEPT !.live = L2, !.row = Refresh(m.row, L2, m.running)]

\* effect of a list of fills at one common price (Market._execute_orders, market.py:690-741, folded)
MFills(m, px, pend) ==
  IF Len(pend) = 0 THEN m
  ELSE LET L2 == Apply(m.live, pend)
           tv == TotalVol(pend)
           r1 == [m.row EXCEPT !.last = px, !.eVol = @ + tv, !.eTot = @ + tv * px] IN
       [m EXCEPT !.live = L2, !.row = Refresh(r1, L2, m.running)]

\* Market._execution: [m |-> market after, px, pend, raised]
\* a round that would produce fills on a market that is not running trips the
\* "market is not running" assertion of _execute_orders and changes nothing
MRound(m) ==
  LET r == RefMatch(m.live) IN
  IF Len(r.pend) > 0 /\ ~m.running THEN [m |-> m, px |-> NoPx, pend |-> <<>>, raised |-> TRUE]
  ELSE [m |-> MFills(m, r.px, r.pend), px |-> r.px, pend |-> r.pend, raised |-> RefRaises(m.live)]

MSetRunning(m, b) == [m EXCEPT !.running = b]

\* FundamentalPriceShock / Market.change_fundamental_price: scale the current fundamental (num/dnm)
MShock(m, num, dnm) == [m EXCEPT !.row.fund = (@ * num) \div dnm]

\* ---------------------------------------------------------------- queries (C06: no access to the future)
\* series value for time t as the accessors return it; "refused" for the future
RowAt(m, t) == IF t = m.clock THEN m.row ELSE m.hist[t + 1]
Query(m, t) == IF t > m.clock THEN "refused" ELSE "value"
\* VWAP numerator / denominator up to time t (get_vwap, market.py:436-453)
VwapNum(m, t) == FoldLeft(LAMBDA acc, r : acc + r.eTot, 0, SubSeq(Append(m.hist, m.row), 1, t + 1))
VwapDen(m, t) == FoldLeft(LAMBDA acc, r : acc + r.eVol, 0, SubSeq(Append(m.hist, m.row), 1, t + 1))

=============================================================================
