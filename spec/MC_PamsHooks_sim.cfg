SPECIFICATION Spec
CONSTANTS
  Kinds <- cKinds
  Times <- cTimes
  TimeLists <- cLists
  NEvents = 3
  IsIdx <- cIdx
  MaxReg = 10
  MaxTrig = 14
INVARIANT ExactlyOnce
INVARIANT OnlyRegistered
INVARIANT TableSound
INVARIANT DispatchOrder
CHECK_DEADLOCK FALSE
