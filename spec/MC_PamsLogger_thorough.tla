---- MODULE MC_PamsLogger_thorough ----
EXTENDS PamsLogger
cKinds == {"order", "cancel", "expiration", "session_end"}
====
