---- MODULE MC_PamsSystem_simh ----
\* random behaviours of the composition WITH a trading halt rule over both markets (tlc -simulate), forced through the real
\* SequentialRunner with a real TradingHaltRule (harness/replay_system.py): wide prices around 40 units, rate 1/16, halts
\* of two further steps, execution sessions in a row so that halts are cut short by session ends and records go stale
EXTENDS PamsSystem
cSess == << [steps |-> 3, place |-> TRUE, exec |-> TRUE, maxN |-> 3, maxH |-> 1, rate |-> 1],
            [steps |-> 4, place |-> TRUE, exec |-> TRUE, maxN |-> 2, maxH |-> 2, rate |-> 2],
            [steps |-> 2, place |-> TRUE, exec |-> FALSE, maxN |-> 2, maxH |-> 1, rate |-> 1],
            [steps |-> 4, place |-> TRUE, exec |-> TRUE, maxN |-> 3, maxH |-> 1, rate |-> 1] >>
cPrices == {32, 37, 40, 43, 48}
cHalt == [on |-> TRUE, targets |-> {1, 2}, num |-> 1, den |-> 16, len |-> 2]
====
