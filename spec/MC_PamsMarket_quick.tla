---- MODULE MC_PamsMarket_quick ----
\* quick tier: every history of up to 2 orders (the design model does not depend on /repo; the quick tier
\* spends its time on traces of the real code instead)
EXTENDS PamsMarket
cReq == {2, 3, 4}
====
