-------------------------- MODULE PamsFundamentals --------------------------
(***************************************************************************)
(* Fundamental price paths (pams/fundamentals.py) as a state machine over  *)
(* value VERSIONS instead of values: ver[m][u + 1] identifies which        *)
(* generation wrote the price of market m at time u.  What C12 says about  *)
(* history is then decidable: regeneration keeps the prefix [0..genUntil], *)
(* a parameter change or shock at time t moves genUntil to t, so values    *)
(* before t are never rewritten and later values are regenerated from the  *)
(* level at t.                                                             *)
(*   Get(m, t)        get_fundamental_price: generate chunks while         *)
(*                    t >= genUntil (every market is regenerated together) *)
(*   ChangeParam(t)   change_volatility / change_drift / set_correlation / *)
(*                    remove_correlation with time = t                     *)
(*   Shock(m, t)      Market.change_fundamental_price at the market's time *)
(* The return law itself (r = diag(vol) L z + drift with L L^T = corr) is  *)
(* in the pure operators at the end; TLC checks L L^T = corr on the        *)
(* rational cases that the algebraic probe replays into the code.          *)
(***************************************************************************)
EXTENDS PamsFundLaw, TLC

CONSTANTS NMk, CHUNK, Horizon, MaxChanges

VARIABLES ver, genUntil, nextVer, nchg, lastChange, snap
vars == <<ver, genUntil, nextVer, nchg, lastChange, snap>>
Mk == 1..NMk
Len0 == Len(ver[1])          \* all markets have the same number of generated values

Init == /\ ver = [m \in Mk |-> <<0>>]           \* time 0 holds the configured initial value (version 0)
        /\ genUntil = 0 /\ nextVer = 1 /\ nchg = 0 /\ lastChange = -1 /\ snap = [m \in Mk |-> <<0>>]

\* Fundamentals._generate_next: keep [0..genUntil], append CHUNK fresh values for every market
Generated(v, g, nv) == [m \in Mk |-> SubSeq(v[m], 1, g + 1) \o [i \in 1..CHUNK |-> nv]]
RECURSIVE GenWhile(_, _, _, _)
GenWhile(v, g, nv, t) == IF t < g THEN <<v, g, nv>> ELSE GenWhile(Generated(v, g, nv), g + CHUNK, nv + 1, t)

Get(t) ==
  /\ t <= Horizon
  /\ LET r == GenWhile(ver, genUntil, nextVer, t) IN
     /\ ver' = r[1] /\ genUntil' = r[2] /\ nextVer' = r[3]
  /\ UNCHANGED <<nchg, lastChange, snap>>

\* admissible: the change time lies within the generated horizon
ChangeParam(t) ==
  /\ nchg < MaxChanges /\ t < Len0
  /\ genUntil' = t /\ nchg' = nchg + 1
  /\ lastChange' = t /\ snap' = ver
  /\ UNCHANGED <<ver, nextVer>>

Shock(m, t) ==
  /\ nchg < MaxChanges /\ t < Len0
  /\ ver' = [ver EXCEPT ![m][t + 1] = nextVer] /\ nextVer' = nextVer + 1
  /\ genUntil' = t /\ nchg' = nchg + 1
  /\ lastChange' = t /\ snap' = [ver EXCEPT ![m][t + 1] = nextVer]
  /\ UNCHANGED <<>>

Next == (\E t \in 0..Horizon : Get(t)) \/ (\E t \in 0..Horizon : ChangeParam(t)) \/ (\E m \in Mk, t \in 0..Horizon : Shock(m, t))
Spec == Init /\ [][Next]_vars

\* ---- C12 (history): what was generated at or before the latest change time is never rewritten
InitialKept == \A m \in Mk : Len(ver[m]) >= 1 /\ (ver[m][1] = 0 \/ \E k \in 1..nextVer : ver[m][1] = k /\ lastChange >= 0)
PastKept == lastChange >= 0 => \A m \in Mk : \A u \in 0..lastChange : u < Len(snap[m]) => ver[m][u + 1] = snap[m][u + 1]
\* regeneration never touches the kept prefix [0..genUntil]
PrefixKept == [][nchg' = nchg => \A m \in Mk : \A u \in 0..genUntil : u < Len(ver[m]) => ver'[m][u + 1] = ver[m][u + 1]]_vars
\* a change or shock at time t rewrites nothing but (for a shock) the slot t itself
ChangeTouchesOnlyItsSlot == [][nchg' > nchg => \A m \in Mk : \A u \in 0..(Len(ver[m]) - 1) :
                                 ver'[m][u + 1] # ver[m][u + 1] => u = genUntil']_vars
SameLength == \A m1, m2 \in Mk : Len(ver[m1]) = Len(ver[m2])
Covered == Len0 >= genUntil + 1

=============================================================================
