-------------------------- MODULE PamsFundamentals --------------------------
(***************************************************************************)
(* Fundamental price paths (pams/fundamentals.py) as a state machine over  *)
(* value VERSIONS instead of values: ver[m][u + 1] identifies which        *)
(* generation wrote the price of market m at time u.  What C12 says about  *)
(* history is then decidable: regeneration keeps the prefix [0..genUntil], *)
(* a parameter change or shock at time t moves genUntil to t, so values    *)
(* before t are never rewritten and later values are regenerated from the  *)
(* level at t.                                                             *)
(*   Get(m, t)        get_fundamental_price: generate chunks while         *)
(*                    t >= genUntil (every market is regenerated together) *)
(*   ChangeParam(t)   change_volatility / change_drift / set_correlation / *)
(*                    remove_correlation with time = t                     *)
(*   Shock(m, t)      Market.change_fundamental_price at the market's time *)
(* A market may START LATE (add_market(start_at = s), StartAt below): it   *)
(* holds its initial value at times 0..s, takes no part in a generation    *)
(* that ends at or before s, and start times are generation boundaries.    *)
(* The return law itself (r = diag(vol) L z + drift with L L^T = corr) is  *)
(* in the pure operators at the end; TLC checks L L^T = corr on the        *)
(* rational cases that the algebraic probe replays into the code.          *)
(***************************************************************************)
EXTENDS PamsFundLaw, TLC

CONSTANTS NMk, CHUNK, Horizon, MaxChanges

VARIABLES ver, genUntil, nextVer, nchg, lastChange, snap
vars == <<ver, genUntil, nextVer, nchg, lastChange, snap>>
Mk == 1..NMk
StartAt == [m \in Mk |-> 0]          \* start_at of every market (a model overrides it; some market starts at 0)
MinOf(S) == CHOOSE x \in S : \A y \in S : x <= y

\* add_market: the initial value (version 0) at the times 0..start_at; genUntil = the smallest start
Init == /\ ver = [m \in Mk |-> [i \in 1..(StartAt[m] + 1) |-> 0]]
        /\ genUntil = MinOf({StartAt[m] : m \in Mk}) /\ nextVer = 1 /\ nchg = 0 /\ lastChange = -1
        /\ snap = [m \in Mk |-> [i \in 1..(StartAt[m] + 1) |-> 0]]

\* Fundamentals._generate_next: the generation runs to the next start time if there is one ahead, else over CHUNK steps;
\* the markets that have started before its end keep [0..genUntil] and get fresh values, the others are left alone
StartsAhead(g) == {StartAt[m] : m \in {k \in Mk : StartAt[k] > g}}
GenLength(g) == IF StartsAhead(g) = {} THEN CHUNK ELSE MinOf(StartsAhead(g)) - g
Targets(g) == {m \in Mk : StartAt[m] < g + GenLength(g)}
Generated(v, g, nv) == [m \in Mk |-> IF m \in Targets(g) THEN SubSeq(v[m], 1, g + 1) \o [i \in 1..GenLength(g) |-> nv] ELSE v[m]]
RECURSIVE GenWhile(_, _, _, _)
GenWhile(v, g, nv, t) == IF t < g THEN <<v, g, nv>> ELSE GenWhile(Generated(v, g, nv), g + GenLength(g), nv + 1, t)
Admissible(t) == \A m \in Mk : t < Len(ver[m])       \* the change time lies within what every market holds

Get(t) ==
  /\ t <= Horizon
  /\ LET r == GenWhile(ver, genUntil, nextVer, t) IN
     /\ ver' = r[1] /\ genUntil' = r[2] /\ nextVer' = r[3]
  /\ UNCHANGED <<nchg, lastChange, snap>>

ChangeParam(t) ==
  /\ nchg < MaxChanges /\ Admissible(t)
  /\ genUntil' = t /\ nchg' = nchg + 1
  /\ lastChange' = t /\ snap' = ver
  /\ UNCHANGED <<ver, nextVer>>

\* (a market is shocked at its own clock: not before it has started)
Shock(m, t) ==
  /\ nchg < MaxChanges /\ Admissible(t) /\ t >= StartAt[m]
  /\ ver' = [ver EXCEPT ![m][t + 1] = nextVer] /\ nextVer' = nextVer + 1
  /\ genUntil' = t /\ nchg' = nchg + 1
  /\ lastChange' = t /\ snap' = [ver EXCEPT ![m][t + 1] = nextVer]
  /\ UNCHANGED <<>>

Next == (\E t \in 0..Horizon : Get(t)) \/ (\E t \in 0..Horizon : ChangeParam(t)) \/ (\E m \in Mk, t \in 0..Horizon : Shock(m, t))
Spec == Init /\ [][Next]_vars

\* ---- C12 (history): what was generated at or before the latest change time is never rewritten
InitialKept == \A m \in Mk : Len(ver[m]) >= 1 /\ (ver[m][1] = 0 \/ \E k \in 1..nextVer : ver[m][1] = k /\ lastChange >= 0)
PastKept == lastChange >= 0 => \A m \in Mk : \A u \in 0..lastChange : u < Len(snap[m]) => ver[m][u + 1] = snap[m][u + 1]
\* regeneration never touches the kept prefix [0..genUntil]
PrefixKept == [][nchg' = nchg => \A m \in Mk : \A u \in 0..genUntil : u < Len(ver[m]) => ver'[m][u + 1] = ver[m][u + 1]]_vars
\* a change or shock at time t rewrites nothing but (for a shock) the slot t itself
ChangeTouchesOnlyItsSlot == [][nchg' > nchg => \A m \in Mk : \A u \in 0..(Len(ver[m]) - 1) :
                                 ver'[m][u + 1] # ver[m][u + 1] => u = genUntil']_vars
\* every market that has started holds a value for every time up to genUntil; all of them up to their start
SameLength == \A m1, m2 \in Mk : (StartAt[m1] <= genUntil /\ StartAt[m2] <= genUntil /\ nchg = 0) => Len(ver[m1]) = Len(ver[m2])
Covered == \A m \in Mk : Len(ver[m]) >= StartAt[m] + 1 /\ (StartAt[m] <= genUntil => Len(ver[m]) >= genUntil + 1)
\* a late market holds its initial value up to its start (only a shock AT the start time writes there), and no
\* generation ever writes at or before a market's start
LateHoldsInitial == \A m \in Mk : \A u \in 0..(StartAt[m] - 1) : ver[m][u + 1] = 0
StartNeverGenerated == [][nchg' = nchg => \A m \in Mk : ver'[m][StartAt[m] + 1] = ver[m][StartAt[m] + 1]]_vars

=============================================================================
