---- MODULE MC_PamsRunner_thorough ----
EXTENDS PamsRunner
cSess == << [steps |-> 1, place |-> TRUE, exec |-> FALSE, maxN |-> 2, maxH |-> 1, rate |-> 1],
            [steps |-> 1, place |-> FALSE, exec |-> TRUE, maxN |-> 3, maxH |-> 1, rate |-> 2],
            [steps |-> 2, place |-> TRUE, exec |-> TRUE, maxN |-> 2, maxH |-> 2, rate |-> 1] >>
cIndex == {2}
====
