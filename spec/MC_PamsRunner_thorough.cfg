SPECIFICATION Spec
CONSTANTS
  NN = 3
  NH = 1
  NM = 2
  IndexMk <- cIndex
  Sess <- cSess
  MaxOrders = 4
INVARIANT NoConsultWithoutPlacement
INVARIANT NoAcceptWithoutPlacement
INVARIANT NoFillWithoutExec
INVARIANT AtMostOnce
INVARIANT CapNormal
INVARIANT CapHft
INVARIANT Rate0NoHft
INVARIANT HftOnlyAfterBatch
INVARIANT CollectComplete
INVARIANT Conservation
INVARIANT LogOnce
INVARIANT LogInOrder
INVARIANT FlushedAfterBoundary
INVARIANT LockStep
INVARIANT IndexAfterComponents
INVARIANT SkewAtMostOne
INVARIANT ClockIsStepCount
PROPERTY RoundFollows
PROPERTY HoldingsOnlyByFills
CHECK_DEADLOCK FALSE
