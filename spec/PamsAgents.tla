----------------------------- MODULE PamsAgents -----------------------------
(***************************************************************************)
(* Decision rules of the built-in agents in scaled integers (C20).         *)
(*                                                                         *)
(* FCN agent (agents/fcn_agent.py): with the market price, the fundamental *)
(* price and the past market price on a geometric grid  p = c 2^a  and the *)
(* noise draw  k ln 2, every log-return is an integer multiple of ln 2, so *)
(* the SIGN of the expected log-return is the sign of an integer:          *)
(*    wF (af - a) / tr  +  wC (a - ap) / tw  +  wN k                       *)
(* (tr mean reversion time, tw window actually used).  The agent buys iff  *)
(* it is positive, sells iff negative.                                     *)
(* Market maker (agents/market_maker_agent.py): base = mid of the best bid *)
(* over accessible markets and the best ask over accessible markets if     *)
(* both exist, else the target's market price; quotes base -/+ fund x      *)
(* spread / 2 (prices in fine units, spread = sn / sd).                    *)
(* Arbitrage agent (agents/arbitrage_agent.py): acts only when index       *)
(* market price and index value differ by more than the threshold.         *)
(***************************************************************************)
EXTENDS TraceBase

Sign(x) == IF x > 0 THEN 1 ELSE IF x < 0 THEN -1 ELSE 0
\* numerator of the expected log-return over the common denominator tr * tw (tr, tw >= 1)
FcnNum(wF, wC, wN, af, a, ap, k, tr, tw) == wF * (af - a) * tw + wC * (a - ap) * tr + wN * k * tr * tw
FcnDirection(wF, wC, wN, af, a, ap, k, tr, tw) == Sign(FcnNum(wF, wC, wN, af, a, ap, k, tr, tw))
\* the sign is decided by integers only when no two non-zero terms cancel exactly
FcnDecidable(wF, wC, wN, af, a, ap, k, tr, tw) ==
  LET t1 == wF * (af - a) * tw  t2 == wC * (a - ap) * tr  t3 == wN * k * tr * tw IN
  (t1 + t2 + t3 # 0) \/ (t1 = 0 /\ t2 = 0 /\ t3 = 0)

\* market maker: bests = sequence of <<accessible, bestBuy (0 none), bestSell (0 none)>> per market
MaxBuy(bests) == Max({0} \cup {bests[i][2] : i \in {j \in 1..Len(bests) : bests[j][1]}})
MinSell(bests) == LET S == {bests[i][3] : i \in {j \in 1..Len(bests) : bests[j][1] /\ bests[j][3] # 0}} IN IF S = {} THEN 0 ELSE Min(S)
MmBase2(bests, targetPx) == IF MaxBuy(bests) = 0 \/ MinSell(bests) = 0 THEN 2 * targetPx ELSE MaxBuy(bests) + MinSell(bests)   \* 2 x base
\* 4 x quotes so that base (halves) and margin fund * sn / (2 sd) stay integral: returns <<4 bid, 4 ask>> * sd
MmQuotes(bests, targetPx, fund, sn, sd) ==
  <<2 * sd * MmBase2(bests, targetPx) - 2 * fund * sn, 2 * sd * MmBase2(bests, targetPx) + 2 * fund * sn>>

\* arbitrage: 1 buy the index / sell the components, -1 the opposite, 0 nothing
ArbDirection(idxPx, idxVal, thr, active) ==
  IF ~active THEN 0
  ELSE IF idxPx < idxVal /\ idxVal - idxPx > thr THEN 1
  ELSE IF idxPx > idxVal /\ idxPx - idxVal > thr THEN -1 ELSE 0
=============================================================================
