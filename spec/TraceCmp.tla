------------------------------ MODULE TraceCmp ------------------------------
(* C02, comparison operators: every pair of a finite universe of orders was instantiated as two real
   pams.order.Order objects (same side) and <, >, ==, !=, <=, >= were evaluated; this specification
   compares each recorded result with the model (PamsOrder).  One NDJSON line per side:
   [orders |-> <<<<id, mo, px, t0>>, ...>>, buy, lt, gt, eq, ne, le, ge (matrices of 0/1)] *)
EXTENDS PamsOrder, TLC, Json, IOUtils
VARIABLES tid, done
TraceLog == ndJsonDeserialize(IOEnv.TRACE_FILE)
N == Len(TraceLog)
Init == tid \in 1..N /\ done = FALSE
Next == ~done /\ done' = TRUE /\ tid' = tid
Spec == Init /\ [][Next]_<<tid, done>>
B(x) == x = 1
Ord(h, i) == MkOrder(h.orders[i][1], 0, h.buy, B(h.orders[i][2]), h.orders[i][3], 1, h.orders[i][4], 0)
Verdict(h) ==
  LET n == Len(h.orders)
      bad == {<<i, j>> \in (1..n) \X (1..n) :
                LET a == Ord(h, i) b == Ord(h, j) IN
                \/ B(h.lt[i][j]) # CmpLt(a, b) \/ B(h.gt[i][j]) # CmpGt(a, b)
                \/ B(h.eq[i][j]) # CmpEq(a, b) \/ B(h.ne[i][j]) # CmpNe(a, b)
                \/ B(h.le[i][j]) # CmpLe(a, b) \/ B(h.ge[i][j]) # CmpGe(a, b)} IN
  IF bad = {} THEN "ok"
  ELSE LET p == CHOOSE q \in bad : TRUE IN "C02:comparison@" \o ToString(p[1]) \o "," \o ToString(p[2])
Report == done => PrintT(<<"VERDICT", tid, TRUE, [C02 |-> Verdict(TraceLog[tid])]>>)
=============================================================================
