SPECIFICATION Spec
INVARIANT Lemmas
CHECK_DEADLOCK FALSE
