SPECIFICATION Spec
CONSTANTS
  P0s = {128, 160, 200, 256}
  Rates <- cRates
  MaxReq = 1500
INVARIANT ClipLemmas
INVARIANT ShockLemmas
INVARIANT HaltLemmas
INVARIANT IndexLemmas
CHECK_DEADLOCK FALSE
