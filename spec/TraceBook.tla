----------------------------- MODULE TraceBook -----------------------------
(***************************************************************************)
(* Trace specification for market-level histories recorded from the REAL   *)
(* pams.market.Market (harness/drive_book.py, harness/replay_book.py).     *)
(*                                                                         *)
(* One NDJSON line per history: [den, p0, exact, ev].  The model market    *)
(* record follows the OBSERVED outcome wherever the properties leave       *)
(* freedom (which orders a round pairs), and every clause of the property  *)
(* layer is evaluated at every event.  Verdicts are total: the spec never  *)
(* blocks; v[Cxx] is "ok" or "<clause>@<event number>" (first failure      *)
(* sticks).  When the model can no longer follow the implementation        *)
(* (sync = FALSE) no further clause is evaluated - never guessed.          *)
(* REF verdicts compare with the reference layer (RefMatch, Refresh ...);  *)
(* they measure spec drift and are not violations.                         *)
(*                                                                         *)
(* Many histories are validated by one TLC run: Init picks tid \in 1..N,   *)
(* each history evolves deterministically, the invariant Report prints     *)
(* one VERDICT line at the end of each.                                    *)
(***************************************************************************)
EXTENDS PamsMarketOps, TLC, Json, IOUtils

VARIABLES tid, l, mkt, acct, seen, objs, sync, v
tvars == <<tid, l, mkt, acct, seen, objs, sync, v>>

TraceLog == ndJsonDeserialize(IOEnv.TRACE_FILE)
N == Len(TraceLog)
Hd == TraceLog[tid]
Ev == Hd.ev

NoTerm == 0  Cancelled == 1  ExpiredT == 2

VOk == [C01 |-> "ok", C02 |-> "ok", C03 |-> "ok", C04 |-> "ok", C06 |-> "ok", C08 |-> "ok", C09 |-> "ok",
        C10 |-> "ok", C16 |-> "ok", C19 |-> "ok", REF |-> "ok"]

\* first failure sticks
F(cur, cond, tag) == IF cur # "ok" THEN cur ELSE IF cond THEN tag \o "@" \o ToString(l) ELSE "ok"

Init ==
  /\ tid \in 1..N
  /\ l = 1
  /\ mkt = MSetRunning(MTick(MNew(Hd.den, Hd.p0), Hd.fund0), TRUE)
  /\ acct = <<>>
  /\ seen = <<>>
  /\ objs = {}
  /\ sync = TRUE
  /\ v = VOk

\* ------------------------------------------------------------------ observation helpers
IdsInPriority(L, isBuy) == LET q == Sorted(Side(L, isBuy)) IN [k \in 1..Len(q) |-> q[k].id]
ObsBook(e) == {<<e.book[k][1], e.book[k][2]>> : k \in 1..Len(e.book)}
RowSeq(r) == <<r.mkt, r.last, r.mid, r.eVol, r.eTot, r.nB, r.nS>>

\* checks shared by all events: the observable state after the event against the model market m2
SnapV(vv, e, m2, what) ==
  LET r == m2.row  o == e.row IN
  [vv EXCEPT
     !.C04 = F(@, ObsBook(e) # BookOf(m2.live), "C04:book-after-" \o what),
     !.C02 = F(F(@, e.bB # BestId(m2.live, TRUE) \/ e.bS # BestId(m2.live, FALSE), "C02:best-after-" \o what),
               \* the order in which a round would take the resting orders is the priority order
               e.oB # IdsInPriority(m2.live, TRUE) \/ e.oS # IdsInPriority(m2.live, FALSE), "C02:queue-order-after-" \o what),
     !.C08 = F(F(F(F(F(F(F(F(F(@,
               e.pB # BestPx(m2.live, TRUE) \/ e.pS # BestPx(m2.live, FALSE), "C08:best-price-after-" \o what),
               e.dB # Depth(m2.live, TRUE) \/ e.dS # Depth(m2.live, FALSE), "C08:depth-after-" \o what),
               o[3] # r.mid, "C08:mid-after-" \o what),
               o[2] # r.last, "C08:last-after-" \o what),
               o[1] # r.mkt, IF m2.running THEN "C08:market-price-after-" \o what ELSE "C08:not-running-moved-after-" \o what),
               o[4] # r.eVol, "C08:volume-after-" \o what),
               o[5] # r.eTot, "C08:turnover-after-" \o what),
               o[6] # r.nB \/ o[7] # r.nS, "C08:counts-after-" \o what),
               ~e.vw, "C08:vwap-after-" \o what),
     \* a round that leaves its queues out of priority order has prepared the next round to miss the best pair
     !.C03 = F(@, what = "match" /\ (e.oB # IdsInPriority(m2.live, TRUE) \/ e.oS # IdsInPriority(m2.live, FALSE)),
               "C03:queues-left-unordered-by-round"),
     \* "moved onto the grid BEFORE acceptance": an off-grid order queues where its ACCEPTED price belongs - behind the older
     \* orders resting at that price, not ahead of them as its submitted price would have it
     !.C19 = F(@, what = "submit" /\ Hd.exact /\ ~e.mo /\ e.req % m2.den # 0
                  /\ (e.oB # IdsInPriority(m2.live, TRUE) \/ e.oS # IdsInPriority(m2.live, FALSE)),
               "C19:off-grid-order-queued-by-its-submitted-price"),
     !.C06 = F(@, e.clock # m2.clock, "C06:clock-after-" \o what)]
\* the model can follow only while the observed book is the model book
InSync(e, m2) == ObsBook(e) = BookOf(m2.live) /\ e.clock = m2.clock

Keep == UNCHANGED <<mkt, acct, seen, objs>>

\* ------------------------------------------------------------------ submissions
SubStep(e) ==
  IF e.neg # ""
  THEN \* negative scenario: the submission must be rejected and change nothing
       /\ Keep
       /\ v' = [v EXCEPT !.C04 = F(F(@, e.out = "ok", "C04:" \o e.neg \o "-accepted"),
                                   ObsBook(e) # BookOf(mkt.live), "C04:rejected-but-book-changed")]
       /\ sync' = (e.out # "ok" /\ ObsBook(e) = BookOf(mkt.live))
  ELSE IF e.out # "ok"
  THEN /\ Keep /\ sync' = FALSE
       /\ v' = [v EXCEPT !.C04 = F(@, TRUE, "C04:valid-submit-raised-" \o e.out)]
  ELSE IF ~e.mo /\ e.px = BadPx
  THEN \* accepted at a price that is not even on the unit grid: nothing the model could follow
       /\ Keep /\ sync' = FALSE
       /\ v' = [v EXCEPT !.C19 = F(@, TRUE, "C19:" \o (IF e.c19 # "" THEN e.c19 ELSE "off-grid"))]
  ELSE
    LET o == MkOrder(e.id, e.ag, e.buy, e.mo, e.px, e.vol, e.t0, e.ttl)
        ref == MAccept(mkt, e.ag, e.buy, e.mo, e.req, e.vol, e.ttl)
        L2 == mkt.live \cup {o}
        r1 == Refresh(mkt.row, L2, mkt.running)
        m2 == [mkt EXCEPT !.live = L2, !.nextId = e.id + 1,
                          !.row = IF e.buy THEN [r1 EXCEPT !.nB = @ + 1] ELSE [r1 EXCEPT !.nS = @ + 1]]
        idok == e.id = mkt.nextId /\ e.t0 = mkt.clock
        v1 == [v EXCEPT
                 !.C04 = F(F(F(F(@, e.id # mkt.nextId, "C04:id"), e.t0 # mkt.clock, "C04:placed-at"),
                           e.obj \in objs, "C04:accepted-twice"),
                           FALSE, ""),
                 !.C19 = IF Hd.exact /\ ~e.mo
                         THEN F(F(F(F(F(@, e.c19 # "", "C19:" \o e.c19), e.px % mkt.den # 0, "C19:off-grid"),
                                   e.req % mkt.den = 0 /\ e.px # e.req, "C19:grid-price-changed"),
                                   (e.buy /\ e.px > e.req) \/ (~e.buy /\ e.px < e.req), "C19:more-aggressive"),
                                   (IF e.px > e.req THEN e.px - e.req ELSE e.req - e.px) >= mkt.den, "C19:moved-a-tick-or-more")
                         ELSE F(@, e.c19 # "", "C19:" \o e.c19),
                 !.C10 = F(@, e.lg # <<1, 0, 0, 0>>, "C10:order-records"),
                 !.REF = F(@, Hd.exact /\ m2 # ref, "REF:accept-differs")] IN
    /\ mkt' = m2
    /\ acct' = Append(acct, [acc |-> e.vol, filled |-> 0, term |-> NoTerm, tvol |-> 0,
                              lim |-> IF e.mo \/ ~Hd.exact THEN NoPx ELSE e.req, buy |-> e.buy])
    /\ objs' = objs \cup {e.obj}
    /\ seen' = seen
    /\ v' = IF idok THEN SnapV(v1, e, m2, "submit") ELSE v1
    /\ sync' = (idok /\ InSync(e, m2))

\* ------------------------------------------------------------------ cancels
CanStep(e) ==
  IF e.out # "ok"
  THEN /\ Keep /\ sync' = FALSE
       /\ v' = [v EXCEPT !.C04 = F(@, TRUE, "C04:valid-cancel-raised-" \o e.out)]
  ELSE IF e.id >= mkt.nextId
  THEN /\ Keep /\ sync' = FALSE /\ v' = [v EXCEPT !.C04 = F(@, TRUE, "C04:cancel-of-unknown-order")]
  ELSE
    LET m2 == MCancel(mkt, e.id)
        a == acct[e.id + 1]
        rest == InBook(mkt.live, e.id)
        v1 == [v EXCEPT
                 \* the FIRST terminal event must report the volume that closes acc = filled + reported
                 !.C04 = F(@, a.term = NoTerm /\ a.acc # a.filled + e.vol, "C04:cancel-volume"),
                 !.C10 = F(@, e.lg # <<0, 1, 0, 0>>, "C10:cancel-records")] IN
    /\ mkt' = m2
    /\ acct' = IF a.term # NoTerm THEN acct
               ELSE [acct EXCEPT ![e.id + 1].term = Cancelled, ![e.id + 1].tvol = e.vol]
    /\ UNCHANGED <<seen, objs>>
    /\ v' = SnapV(v1, e, m2, "cancel")
    /\ sync' = InSync(e, m2)

\* ------------------------------------------------------------------ clock steps
TickStep(e) ==
  LET now == mkt.clock + 1
      gone == Expired(mkt.live, now)
      obsIds == {e.exp[k][1] : k \in 1..Len(e.exp)}
      setok == obsIds = {o.id : o \in gone} /\ Len(e.exp) = Cardinality(obsIds)
      \* a wrong expiry set is a C04 verdict; when the orders the code removed are resting orders the model FOLLOWS the
      \* code's book from here on, so that the later consequences (C03: a round that raises, C01 ...) are still judged
      followable == ~setok /\ obsIds \subseteq {o.id : o \in mkt.live} /\ Len(e.exp) = Cardinality(obsIds)
      goneF == IF followable THEN {o \in mkt.live : o.id \in obsIds} ELSE gone
      m2 == LET t0 == MTick(mkt, e.fund) IN IF followable THEN [t0 EXCEPT !.live = mkt.live \ goneF] ELSE t0
      volok == \A k \in 1..Len(e.exp) : \A o \in gone : o.id = e.exp[k][1] => o.vol = e.exp[k][2]
      v1 == [v EXCEPT
               !.C04 = F(F(@, ~setok, "C04:expiry-set"), ~volok, "C04:expiry-volume"),
               \* one expiry record, stamped with the new time, for every order that LEFT the book at this clock step (what left
               \* is read off the observed books; whether the right orders left is C04's business)
               !.C10 = F(F(F(@, e.lg # <<0, 0, 0, Len(e.exp)>>, "C10:expiry-records"),
                           obsIds # ({o.id : o \in mkt.live} \ {e.book[k][1] : k \in 1..Len(e.book)}) \/ Len(e.exp) # Cardinality(obsIds),
                           "C10:expiry-records-differ-from-the-orders-that-left"),
                           \E k \in 1..Len(e.exp) : Len(e.exp[k]) >= 3 /\ e.exp[k][3] # now, "C10:expiry-record-time"),
               \* what a finished step's statistics said stays what they say (per-step sums, C08, as well as C06)
               !.C08 = F(@, ~e.nh /\ ~IsPrefix(seen, e.hist), "C08:statistics-of-a-finished-step-changed"),
               \* (e.nh: an earlier Market._set_time skipped steps; the series getters refuse the skipped times, the history is not read)
               !.C06 = F(F(F(F(@, e.clock # now, "C06:clock-step"),
                          ~e.nh /\ Len(e.hist) # now, "C06:history-length"),
                          ~e.nh /\ ~IsPrefix(seen, e.hist), "C06:history-changed"),
                          \* the row of the step that ends now, read just before the clock moved (pre; 0 = not read),
                          \* is the row recorded for that time
                          ~e.nh /\ e.pre # 0 /\ Len(e.hist) = now /\ now > 0 /\ e.hist[now] # e.pre, "C06:closing-row-rewritten-by-clock-step")] IN
  /\ mkt' = m2
  /\ acct' = [i \in 1..Len(acct) |->
                IF InBook(goneF, i - 1)
                THEN [acct[i] EXCEPT !.term = ExpiredT, !.tvol = ById(goneF, i - 1).vol]
                ELSE acct[i]]
  /\ seen' = IF e.nh THEN seen ELSE e.hist
  /\ objs' = objs
  /\ v' = SnapV(v1, e, m2, "tick")
  /\ sync' = ((setok \/ followable) /\ InSync(e, m2))

\* Market._set_time: the clock jumps several steps at once.  Orders whose life ended before the new time leave now;
\* what the price series show for the new time after a jump is adopted from the observation (the properties speak of
\* clock STEPS there); the step counters restart; recorded history stays as it was.
JumpStep(e) ==
  LET now == e.to
      gone == Expired(mkt.live, now)
      obsIds == {e.exp[k][1] : k \in 1..Len(e.exp)}
      o == e.row
      setok == obsIds = {x.id : x \in gone} /\ Len(e.exp) = Cardinality(obsIds)
      followable == ~setok /\ obsIds \subseteq {x.id : x \in mkt.live} /\ Len(e.exp) = Cardinality(obsIds)
      goneF == IF followable THEN {x \in mkt.live : x.id \in obsIds} ELSE gone
      \* reference layer: the transcription of Market._set_time (what the design model MC_PamsMarket_jump is checked with)
      canRef == now > mkt.clock /\ mkt.clock >= 0
      ref == IF canRef THEN MJump(mkt, now, e.fund) ELSE mkt
      m2 == [mkt EXCEPT !.clock = now, !.live = mkt.live \ goneF, !.hist = ref.hist,
                        !.row = [mkt |-> o[1], last |-> o[2], mid |-> o[3], fund |-> e.fund, eVol |-> 0, eTot |-> 0, nB |-> 0, nS |-> 0]]
      volok == \A k \in 1..Len(e.exp) : \A x \in gone : x.id = e.exp[k][1] => x.vol = e.exp[k][2]
      v1 == [v EXCEPT
               !.C04 = F(F(@, ~setok, "C04:expiry-set-at-jump"), ~volok, "C04:expiry-volume-at-jump"),
               !.C10 = F(F(F(@, e.lg # <<0, 0, 0, Len(e.exp)>>, "C10:expiry-records"),
                           obsIds # ({x.id : x \in mkt.live} \ {e.book[k][1] : k \in 1..Len(e.book)}) \/ Len(e.exp) # Cardinality(obsIds),
                           "C10:expiry-records-differ-from-the-orders-that-left"),
                           \E k \in 1..Len(e.exp) : Len(e.exp[k]) >= 3 /\ e.exp[k][3] # now, "C10:expiry-record-time"),
               \* the jump records nothing about the steps that were finished before it: their rows stay what they were, and
               \* the row of the step the jump ends is the one read just before it
               !.C08 = F(@, ~IsPrefix(seen, e.hist), "C08:statistics-of-a-finished-step-changed-by-jump"),
               !.REF = F(@, Hd.exact /\ canRef /\ <<ref.row.mkt, ref.row.last, ref.row.mid>> # <<o[1], o[2], o[3]>>, "REF:jump-row-differs"),
               !.C06 = F(F(F(F(@, e.clock # now, "C06:clock-jump"),
                          Len(e.hist) # now, "C06:history-length-after-jump"),
                          ~IsPrefix(seen, e.hist), "C06:history-changed-by-jump"),
                          e.pre # 0 /\ e.told >= 0 /\ Len(e.hist) > e.told /\ e.hist[e.told + 1] # e.pre, "C06:closing-row-rewritten-by-jump")] IN
  /\ mkt' = m2
  /\ acct' = [i \in 1..Len(acct) |->
                IF InBook(goneF, i - 1)
                THEN [acct[i] EXCEPT !.term = ExpiredT, !.tvol = ById(goneF, i - 1).vol]
                ELSE acct[i]]
  /\ seen' = e.hist           \* (rows of skipped times: whatever the getters answer for them from now on, refusals included)
  /\ objs' = objs
  /\ v' = SnapV(v1, e, m2, "jump")
  /\ sync' = (now > mkt.clock /\ (setok \/ followable) /\ InSync(e, m2))

\* ------------------------------------------------------------------ matching rounds
MatchStep(e) ==
  LET pend == [k \in 1..Len(e.fills) |-> [b |-> e.fills[k][1], s |-> e.fills[k][2], v |-> e.fills[k][4]]]
      pxs == {e.fills[k][3] : k \in 1..Len(e.fills)}
      px == IF Len(e.fills) = 0 THEN NoPx ELSE e.fills[Len(e.fills)][3]
      wf == C04ok(mkt.live, pend)
      ref == MRound(mkt) IN
  IF e.raised # ""
  THEN \* the only legitimate exception: a round with executable orders on a market that is not running
       /\ Keep
       /\ v' = [v EXCEPT !.C03 = F(@, mkt.running \/ ~RemainExec(mkt.live), "C03:raised-" \o e.raised)]
       /\ sync' = (~mkt.running /\ RemainExec(mkt.live) /\ ObsBook(e) = BookOf(mkt.live))
  ELSE IF ~wf
  THEN /\ Keep /\ sync' = FALSE
       /\ v' = [v EXCEPT !.C04 = F(@, TRUE, "C04:fills-illformed")]
  ELSE IF BadPx \in pxs
  THEN /\ Keep /\ sync' = FALSE
       /\ v' = [v EXCEPT !.C01 = F(@, TRUE, "C01:fill-price-off-the-unit-grid")]
  ELSE
    LET L2 == Apply(mkt.live, pend)
        m2 == MFills(mkt, px, pend)
        v1 == [v EXCEPT
                 !.C16 = F(@, ~mkt.running /\ Len(pend) > 0, "C16:fill-while-stopped"),
                 !.C01 = F(F(F(F(F(@, Cardinality(pxs) > 1, "C01:single-price"),
                             ~C01ok(mkt.live, px, pend), "C01:limits"),
                             ~C01rule(mkt.live, px, pend), "C01:price-rule"),
                             \* the limit an order was SUBMITTED with bounds its fills as well (the accepted price is never more
                             \* aggressive than the submitted one)
                             (\E k \in 1..Len(pend) :
                                \/ (acct[pend[k].b + 1].lim # NoPx /\ px > acct[pend[k].b + 1].lim)
                                \/ (acct[pend[k].s + 1].lim # NoPx /\ px < acct[pend[k].s + 1].lim)), "C01:beyond-the-submitted-limit"),
                             Len(pend) > 0 /\ px = NoPx, "C01:no-price"),
                 !.C02 = F(@, ~C02ok(mkt.live, pend), "C02:priority"),
                 !.C03 = F(@, ~C03ok(L2), "C03:crossed-after"),
                 !.C10 = F(@, e.lg # <<0, 0, Len(pend), 0>>, "C10:execution-records"),
                 !.REF = F(@, pend # ref.pend \/ px # ref.px, "REF:fills-differ")] IN
    /\ mkt' = m2
    /\ acct' = [i \in 1..Len(acct) |-> [acct[i] EXCEPT !.filled = @ + FilledOf(pend, i - 1)]]
    /\ UNCHANGED <<seen, objs>>
    /\ v' = SnapV(v1, e, m2, "match")
    /\ sync' = InSync(e, m2)

\* ------------------------------------------------------------------ running flag, probes, end
RunStep(e) ==
  LET m2 == MSetRunning(mkt, e.on) IN
  /\ mkt' = m2 /\ UNCHANGED <<acct, seen, objs>>
  /\ v' = SnapV(v, e, m2, "run-switch")
  /\ sync' = InSync(e, m2)

ProbeStep(e) ==
  /\ Keep /\ sync' = sync
  /\ v' = [v EXCEPT !.C06 = F(@, e.t > mkt.clock /\ e.res # "refused", "C06:future-" \o e.acc)]

\* end of history: what the submitter's own order objects show, and closure of the accounting identity
EndStep(e) ==
  LET bad(k) ==
        LET id == e.ords[k][1]  vol == e.ords[k][2]  cx == e.ords[k][3]  a == acct[id + 1] IN
        IF InBook(mkt.live, id) THEN vol # ById(mkt.live, id).vol \/ vol <= 0 \/ a.acc # a.filled + vol
        ELSE IF a.term = NoTerm THEN vol # 0 \/ a.acc # a.filled
        ELSE a.acc # a.filled + a.tvol \/ (a.term = Cancelled /\ ~cx) IN
  /\ Keep /\ sync' = sync
  /\ v' = [v EXCEPT !.C04 = F(F(@, Len(e.ords) # mkt.nextId, "C04:closure-count"),
                              \E k \in 1..Len(e.ords) : e.ords[k][1] < mkt.nextId /\ bad(k), "C04:closure")]

\* run level: the runner has moved on after accepting an order / cancel on this market while the session's
\* execution switch was on and the market was running: a matching round must have followed, i.e. no
\* executable pair may be left (C09; an implementation that skips an EMPTY round is not an alarm)
QuietStep(e) ==
  /\ Keep /\ sync' = sync
  /\ v' = [v EXCEPT !.C09 = F(@, e.exec /\ e.runacc /\ ~C03ok(mkt.live), "C09:round-missing"),
                      \* (a run with a trading halt rule: matching goes on - resumes - whenever the market runs)
                      !.C16 = F(@, Hd.halt /\ e.exec /\ e.runacc /\ ~C03ok(mkt.live), "C16:no-round-although-the-market-runs")]

\* the code raised inside a valid operation (clock step, getter): attributed to the property that governs it
CrashStep(e) ==
  /\ Keep /\ sync' = FALSE
  /\ v' = IF e.op = "tick" THEN [v EXCEPT !.C04 = F(@, TRUE, "C04:clock-step-raised-" \o e.exc)]
          ELSE [v EXCEPT !.C08 = F(@, TRUE, "C08:" \o e.op \o "-raised-" \o e.exc)]

Step ==
  /\ l <= Len(Ev)
  /\ l' = l + 1 /\ tid' = tid
  /\ LET e == Ev[l] IN
     IF ~sync THEN UNCHANGED <<mkt, acct, seen, objs, sync, v>>
     ELSE CASE e.k = "sub" -> SubStep(e)
            [] e.k = "can" -> CanStep(e)
            [] e.k = "tick" -> TickStep(e)
            [] e.k = "jump" -> JumpStep(e)
            [] e.k = "match" -> MatchStep(e)
            [] e.k = "run" -> RunStep(e)
            [] e.k = "probe" -> ProbeStep(e)
            [] e.k = "end" -> EndStep(e)
            [] e.k = "crash" -> CrashStep(e)
            [] e.k = "quiet" -> QuietStep(e)

Done == l = Len(Ev) + 1
Report == Done => PrintT(<<"VERDICT", tid, sync, v>>)
Spec == Init /\ [][Step]_tvars
=============================================================================
