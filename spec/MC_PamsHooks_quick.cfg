SPECIFICATION Spec
CONSTANTS
  Kinds <- cKinds
  Times <- cTimes
  TimeLists <- cLists
  NEvents = 2
  IsIdx <- cIdx
  MaxReg = 2
  MaxTrig = 1
VIEW view
INVARIANT ExactlyOnce
INVARIANT OnlyRegistered
INVARIANT TableSound
INVARIANT DispatchOrder
PROPERTY RegistryStable
CHECK_DEADLOCK FALSE
