---- MODULE MC_PamsMarket_sim ----
\* constants for random behaviours (tlc -simulate) that are replayed into the real Market
EXTENDS PamsMarket
cReq == {14, 15, 16, 17, 18, 19, 20, 21, 22}
====
