---- MODULE MC_PamsHalt_asis ----
EXTENDS PamsHalt
cRules == << {1, 2}, {2, 3} >>
cSteps == <<3, 2, 3>>
cExec == <<TRUE, FALSE, TRUE>>
====
