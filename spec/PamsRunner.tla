----------------------------- MODULE PamsRunner -----------------------------
(***************************************************************************)
(* Run-level state machine of PAMS (runners/sequential.py, simulator.py):  *)
(* sessions, steps, the lock-step clock, the scheduler of normal and       *)
(* high-frequency agents, order handling with matching under the session's *)
(* execution switch, holdings, the logger queue and agent callbacks.       *)
(*                                                                         *)
(* One action per critical section of the implementation:                  *)
(*   SimBegin, TickMarket(m) (one market of _update_times_on_markets),     *)
(*   SessionBegin, StepBegin, Consult(a, op) (one iteration of             *)
(*   _collect_orders_from_normal_agents), CollectDone, HandleBatch(i, gate)*)
(*   (one batch of _handle_orders followed by the HFT gate draw),          *)
(*   ConsultH(h, op), HftDone, HandleDone, StepEnd, SessionEnd, SimEnd.    *)
(* Every random draw of the runner is an explicit choice (which agent is   *)
(* consulted next, which batch is handled next, the gate), so TLC          *)
(* enumerates all schedules and a replay can force them.                   *)
(*                                                                         *)
(* The book inside this model is ABSTRACT: unit-volume orders at one       *)
(* common price, so a round pairs the oldest buy with the oldest sell      *)
(* (that is what price-time priority gives at equal prices; precise        *)
(* matching is PamsBook's job).  Agent programs choose among               *)
(* none / buy / sell / cancel-own-oldest on any market they like.          *)
(***************************************************************************)
EXTENDS Naturals, Integers, Sequences, FiniteSets, TLC, SequencesExt, FiniteSetsExt

CONSTANTS NN, NH,     \* number of normal / high-frequency agents (normal 1..NN, HFT NN+1..NN+NH)
          NM,         \* number of markets; IndexMk \subseteq 1..NM are index markets
          IndexMk,
          Sess,       \* sequence of [steps, place, exec, maxN, maxH, rate]; rate 0 never, 1 sometimes, 2 always
          MaxOrders   \* bound on accepted orders (state-space bound only)

VARIABLES phase, s, k, clock, tickTodo,
          remN, nN, coll, todo, inH, remH, nH, handled,
          book, nextId, led, pendq, ndeliv, nhappened,
          cN, cH, fillSess, accSess
vars == <<phase, s, k, clock, tickTodo, remN, nN, coll, todo, inH, remH, nH, handled,
          book, nextId, led, pendq, ndeliv, nhappened, cN, cH, fillSess, accSess>>

Normal == 1..NN
HFT == (NN + 1)..(NN + NH)
Agents == 1..(NN + NH)
Mk == 1..NM
Ops == {"none", "buy", "sell", "cancel"}
S == Sess[s]
Cash0 == 10   Shares0 == 5

Own(a) == {o \in book : o.ag = a}
Oldest(X) == CHOOSE o \in X : \A p \in X : o.seq <= p.seq
EffOp(a, op) == IF op = "cancel" /\ Own(a) = {} THEN "none" ELSE op

\* ------------------------------------------------------------------ one accepted order / cancel and what follows it
\* abstract round on market m: pair oldest buy with oldest sell while both sides are non-empty
RECURSIVE MatchAll(_, _, _)
MatchAll(B, m, fills) ==
  LET bs == {o \in B : o.m = m /\ o.buy}  ss == {o \in B : o.m = m /\ ~o.buy} IN
  IF bs = {} \/ ss = {} THEN [book |-> B, fills |-> fills]
  ELSE LET b == Oldest(bs)  x == Oldest(ss) IN
       MatchAll(B \ {b, x}, m, Append(fills, [b |-> b.ag, s |-> x.ag, m |-> m]))

ApplyFills(L, fills) ==   \* Simulator._update_agents_for_execution at unit price, unit volume
  LET delta(a, f) == [cash |-> (IF f.s = a THEN 1 ELSE 0) - (IF f.b = a THEN 1 ELSE 0),
                      sh |-> (IF f.b = a THEN 1 ELSE 0) - (IF f.s = a THEN 1 ELSE 0)] IN
  [a \in Agents |->
     [cash |-> L[a].cash + FoldLeft(LAMBDA acc, f : acc + delta(a, f).cash, 0, fills),
      sh |-> [m \in Mk |-> L[a].sh[m] + FoldLeft(LAMBDA acc, f : acc + (IF f.m = m THEN delta(a, f).sh ELSE 0), 0, fills)]]]

\* accept the order / cancel `op` of agent a on market m; then, iff the session executes, one matching round,
\* then holdings for the whole round, then the callbacks (owner; buyer and seller of every fill - a
\* deterministic chain without choices, checked on recorded runs by TraceLedger), log records queued in order
\* tgt: for a cancel, the seq of the order the agent chose when it was consulted (it may be gone by now:
\* the cancel is still accepted, the book does not change); m is then the market of THAT order - a cancel is
\* handled, and followed by a round, on the market its order names, whether the order still rests or not
Accept(a, op, m, tgt) ==
  LET b1 == IF op = "cancel" THEN {o \in book : o.seq # tgt}
            ELSE book \cup {[seq |-> nextId, ag |-> a, buy |-> (op = "buy"), m |-> m]}
      tm == m
      r == IF S.exec THEN MatchAll(b1, tm, <<>>)
           ELSE [book |-> b1, fills |-> <<>>]
      nf == Len(r.fills) IN
  /\ book' = r.book
  /\ nextId' = IF op = "cancel" THEN nextId ELSE nextId + 1
  /\ led' = ApplyFills(led, r.fills)
  /\ pendq' = pendq \o <<[kind |-> IF op = "cancel" THEN "cancel" ELSE "order", n |-> nhappened + 1]>>
                    \o [i \in 1..nf |-> [kind |-> "exec", n |-> nhappened + 1 + i]]
  /\ nhappened' = nhappened + 1 + nf
  /\ ndeliv' = ndeliv
  /\ fillSess' = IF nf > 0 THEN fillSess \cup {s} ELSE fillSess
  /\ accSess' = accSess \cup {s}

\* ------------------------------------------------------------------ initial state and the run skeleton
Init ==
  /\ phase = "simbegin" /\ s = 1 /\ k = 0
  /\ clock = [m \in Mk |-> -1] /\ tickTodo = {}
  /\ remN = {} /\ nN = 0 /\ coll = <<>> /\ todo = {} /\ inH = FALSE /\ remH = {} /\ nH = 0 /\ handled = 0
  /\ book = {} /\ nextId = 0
  /\ led = [a \in Agents |-> [cash |-> Cash0, sh |-> [m \in Mk |-> Shares0]]]
  /\ pendq = <<>> /\ ndeliv = 0 /\ nhappened = 0
  /\ cN = [a \in Normal |-> 0] /\ cH = 0 /\ fillSess = {} /\ accSess = {}

SchedVars == <<remN, nN, coll, todo, inH, remH, nH, handled, cN, cH>>
MarketVars == <<book, nextId, led, fillSess, accSess>>
LogVars == <<pendq, ndeliv, nhappened>>

Flush == /\ ndeliv' = ndeliv + Len(pendq) /\ pendq' = <<>> /\ UNCHANGED nhappened   \* Logger._process

SimBegin ==      \* SimulationBeginLog + flush, then the first clock step -1 -> 0
  /\ phase = "simbegin"
  /\ Flush
  /\ phase' = "tick" /\ tickTodo' = Mk
  /\ UNCHANGED <<s, k, clock, SchedVars, MarketVars>>

\* Simulator._update_times_on_markets: non-index markets first, index markets after their components
TickMarket(m) ==
  /\ phase = "tick" /\ m \in tickTodo
  /\ (m \in IndexMk => tickTodo \subseteq IndexMk)
  /\ clock' = [clock EXCEPT ![m] = @ + 1]
  /\ tickTodo' = tickTodo \ {m}
  /\ UNCHANGED <<phase, s, k, SchedVars, MarketVars, LogVars>>

TickDone ==
  /\ phase = "tick" /\ tickTodo = {}
  /\ phase' = IF clock[1] = 0 /\ k = 0 /\ s = 1 THEN "sessbegin"          \* after the initial step
              ELSE IF k < S.steps THEN "stepbegin" ELSE "sessend"
  /\ UNCHANGED <<s, k, clock, tickTodo, SchedVars, MarketVars, LogVars>>

SessionBegin ==  \* hooks, SessionBeginLog + flush, market._is_running := session switch
  /\ phase = "sessbegin"
  /\ Flush
  /\ phase' = IF S.steps > 0 THEN "stepbegin" ELSE "sessend"
  /\ k' = 0
  /\ UNCHANGED <<s, clock, tickTodo, SchedVars, MarketVars>>

StepBegin ==     \* before-step hooks and begin logs of every market (delivered synchronously, never queued)
  /\ phase = "stepbegin"
  /\ phase' = IF S.place THEN "collect" ELSE "stepend"
  /\ remN' = Normal /\ nN' = 0 /\ coll' = <<>> /\ cN' = [a \in Normal |-> 0] /\ cH' = 0 /\ handled' = 0
  /\ UNCHANGED <<s, k, clock, tickTodo, todo, inH, remH, nH, MarketVars, LogVars>>

\* one iteration of _collect_orders_from_normal_agents: the next agent of the shuffled list is asked
Consult(a, op, m) ==
  /\ phase = "collect" /\ nN < S.maxN /\ a \in remN
  /\ remN' = remN \ {a}
  /\ cN' = [cN EXCEPT ![a] = @ + 1]
  /\ LET e == EffOp(a, op) IN
     IF e = "none" THEN UNCHANGED <<nN, coll>>
     ELSE nN' = nN + 1 /\ coll' = Append(coll, [ag |-> a, op |-> e, m |-> IF e = "cancel" THEN Oldest(Own(a)).m ELSE m,
                                                   tgt |-> IF e = "cancel" THEN Oldest(Own(a)).seq ELSE -1])
  /\ UNCHANGED <<phase, s, k, clock, tickTodo, todo, inH, remH, nH, handled, cH, MarketVars, LogVars>>

CollectDone ==
  /\ phase = "collect" /\ (nN >= S.maxN \/ remN = {})
  /\ phase' = "handle" /\ todo' = 1..Len(coll)
  /\ UNCHANGED <<s, k, clock, tickTodo, remN, nN, coll, inH, remH, nH, handled, cN, cH, MarketVars, LogVars>>

\* one batch of _handle_orders (batches in shuffled order) and the HFT gate draw that follows it
HandleBatch(i, gate) ==
  /\ phase = "handle" /\ ~inH /\ i \in todo
  /\ nextId < MaxOrders
  /\ todo' = todo \ {i}
  /\ handled' = handled + 1
  /\ LET b == coll[i] IN Accept(b.ag, b.op, b.m, b.tgt)
  /\ (S.rate = 0 => ~gate) /\ (S.rate = 2 => gate)
  /\ inH' = gate /\ remH' = (IF gate THEN HFT ELSE {}) /\ nH' = 0
  /\ UNCHANGED <<phase, s, k, clock, tickTodo, remN, nN, coll, cN, cH>>

ConsultH(h, op, m) ==
  /\ phase = "handle" /\ inH /\ nH < S.maxH /\ h \in remH
  /\ nextId < MaxOrders
  /\ remH' = remH \ {h} /\ cH' = cH + 1
  /\ LET e == EffOp(h, op) IN
       IF e = "none" THEN UNCHANGED <<MarketVars, LogVars, nH>>
       ELSE Accept(h, e, IF e = "cancel" THEN Oldest(Own(h)).m ELSE m, IF e = "cancel" THEN Oldest(Own(h)).seq ELSE -1) /\ nH' = nH + 1
  /\ UNCHANGED <<phase, s, k, clock, tickTodo, remN, nN, coll, todo, inH, handled, cN>>

HftDone ==
  /\ phase = "handle" /\ inH /\ (nH >= S.maxH \/ remH = {})
  /\ inH' = FALSE
  /\ UNCHANGED <<phase, s, k, clock, tickTodo, remN, nN, coll, todo, remH, nH, handled, cN, cH, MarketVars, LogVars>>

HandleDone ==
  /\ phase = "handle" /\ ~inH /\ todo = {}
  /\ phase' = "stepend"
  /\ UNCHANGED <<s, k, clock, tickTodo, SchedVars, MarketVars, LogVars>>

StepEnd ==       \* end logs and after-step hooks, then the clock step
  /\ phase = "stepend"
  /\ k' = k + 1
  /\ phase' = "tick" /\ tickTodo' = Mk
  /\ UNCHANGED <<s, clock, SchedVars, MarketVars, LogVars>>

SessionEnd ==    \* after-session hooks, SessionEndLog + flush
  /\ phase = "sessend"
  /\ Flush
  /\ IF s < Len(Sess) THEN s' = s + 1 /\ phase' = "sessbegin" /\ k' = 0
     ELSE s' = s /\ phase' = "simend" /\ k' = k
  /\ UNCHANGED <<clock, tickTodo, SchedVars, MarketVars>>

SimEnd ==
  /\ phase = "simend"
  /\ Flush
  /\ phase' = "done"
  /\ UNCHANGED <<s, k, clock, tickTodo, SchedVars, MarketVars>>

Next ==
  \/ SimBegin \/ (\E m \in Mk : TickMarket(m)) \/ TickDone \/ SessionBegin \/ StepBegin
  \/ (\E a \in Normal, op \in Ops, m \in Mk : Consult(a, op, m)) \/ CollectDone
  \/ (\E i \in 1..NN, g \in BOOLEAN : HandleBatch(i, g))
  \/ (\E h \in HFT, op \in Ops, m \in Mk : ConsultH(h, op, m))
  \/ HftDone \/ HandleDone \/ StepEnd \/ SessionEnd \/ SimEnd
Spec == Init /\ [][Next]_vars

\* ================================================================== properties
\* ---- C09: the sentences of the property
NoConsultWithoutPlacement == (phase \in {"collect", "handle", "stepend"} /\ ~S.place) => ((\A a \in Normal : cN[a] = 0) /\ cH = 0)
NoAcceptWithoutPlacement == \A x \in accSess : Sess[x].place
NoFillWithoutExec == \A x \in fillSess : Sess[x].exec
InStep == phase \in {"collect", "handle", "stepend"}
AtMostOnce == \A a \in Normal : cN[a] <= 1
CapNormal == InStep => (nN <= S.maxN /\ Len(coll) <= S.maxN)
CapHft == InStep => nH <= S.maxH
Rate0NoHft == (InStep /\ S.rate = 0) => cH = 0
HftOnlyAfterBatch == (InStep /\ cH > 0) => handled > 0
\* the collection stops only because everybody was asked or the cap was reached
CollectComplete == phase = "handle" => (remN = {} \/ nN >= S.maxN)
\* a round follows every acceptance while the session executes: the market just touched is not left crossed
OnMarket(B, m) == {o \in B : o.m = m}
Uncrossed(B, m) == {o \in B : o.m = m /\ o.buy} = {} \/ {o \in B : o.m = m /\ ~o.buy} = {}
RoundFollows == [][S.exec => \A m \in Mk : OnMarket(book, m) # OnMarket(book', m) => Uncrossed(book', m)]_vars

\* ---- C05: conservation; nothing but fills moves holdings
TotalCash == FoldSet(LAMBDA a, acc : acc + led[a].cash, 0, Agents)
TotalShares(m) == FoldSet(LAMBDA a, acc : acc + led[a].sh[m], 0, Agents)
Conservation == TotalCash = Cash0 * (NN + NH) /\ \A m \in Mk : TotalShares(m) = Shares0 * (NN + NH)
HoldingsOnlyByFills == [][led' # led => nhappened' > nhappened + 1]_vars

\* ---- C10: exactly once, in order, flushed at every session boundary and at the end
LogOnce == ndeliv + Len(pendq) = nhappened
LogInOrder == \A i \in 1..Len(pendq) : pendq[i].n = ndeliv + i
FlushedAfterBoundary == (phase = "done" \/ (phase \in {"stepbegin", "sessend"} /\ k = 0)) => pendq = <<>>

\* ---- C06: one lock-step clock; index markets step after their components; session spans
LockStep == phase # "tick" => \A m1, m2 \in Mk : clock[m1] = clock[m2]
IndexAfterComponents == \A i \in IndexMk : \A c \in Mk \ IndexMk : clock[i] <= clock[c]
SkewAtMostOne == \A m1, m2 \in Mk : clock[m1] - clock[m2] \in {-1, 0, 1}
SessStart(j) == FoldLeft(LAMBDA acc, x : acc + x.steps, 0, SubSeq(Sess, 1, j - 1))
ClockIsStepCount == (phase \in {"stepbegin", "collect", "handle", "stepend"}) => clock[1] = SessStart(s) + k
=============================================================================
