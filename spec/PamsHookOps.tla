---------------------------- MODULE PamsHookOps ----------------------------
(***************************************************************************)
(* Operators of the event-hook registry shared by the design model         *)
(* (PamsHooks) and the trace specification (TraceHookReg).  No variables.  *)
(* A registration is a record [ev, kind, times, flt]:                      *)
(*   kind   register name ("order_before", ..., "market_after")            *)
(*   times  the hook's time list, <<NoTime>> when it has none              *)
(*   flt    <<0,-1>> none, <<1,-1>> class Market, <<2,-1>> class           *)
(*          IndexMarket, <<3,m>> instance m (market-step hooks only)       *)
(***************************************************************************)
EXTENDS Naturals, Integers, Sequences, FiniteSets, SequencesExt

NoTime == -1
MarketKinds == {"market_before", "market_after"}

\* dict.fromkeys(times): the distinct keys a registration is filed under
DistinctKeys(times) == IF times = <<NoTime>> THEN <<NoTime>>
                       ELSE LET RECURSIVE Dd(_, _)
                                Dd(s, acc) == IF s = <<>> THEN acc
                                              ELSE IF \E i \in 1..Len(acc) : acc[i] = Head(s) THEN Dd(Tail(s), acc)
                                              ELSE Dd(Tail(s), Append(acc, Head(s)))
                            IN Dd(times, <<>>)

\* _check_event_class_and_instance; isIdx[m + 1]: market m is an IndexMarket
FilterOk(h, m, isIdx) == CASE h.flt[1] = 0 -> TRUE
                           [] h.flt[1] = 1 -> TRUE                 \* isinstance(market, Market): every market
                           [] h.flt[1] = 2 -> isIdx[m + 1]
                           [] h.flt[1] = 3 -> h.flt[2] = m

\* property layer (C13): registration h is owed an invocation by the occurrence (kind, t, m)
InList(times, t) == times = <<NoTime>> \/ \E i \in 1..Len(times) : times[i] = t
Matches(h, kind, t, m, isIdx) == h.kind = kind /\ InList(h.times, t) /\ (kind \in MarketKinds => FilterOk(h, m, isIdx))
Count(s, x) == Cardinality({i \in 1..Len(s) : s[i] = x})
\* the events owed an invocation, in the order the reference layer invokes them: registrations without a time list
\* first, then those listed for the time, each group in registration order
OwedInOrder(reg, kind, t, m, isIdx) ==
  LET idx == SelectSeq([i \in 1..Len(reg) |-> i], LAMBDA i : Matches(reg[i], kind, t, m, isIdx))
      untimed == SelectSeq(idx, LAMBDA i : reg[i].times = <<NoTime>>)
      timed == SelectSeq(idx, LAMBDA i : reg[i].times # <<NoTime>>) IN
  untimed \o timed
=============================================================================
