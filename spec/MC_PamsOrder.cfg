SPECIFICATION Spec
CONSTANTS
  Pxs = {2, 4, 6}
  T0s = {0, 1, 2}
  Ids = {0, 1, 2, 3}
INVARIANT Lemmas
INVARIANT TransLemma
CHECK_DEADLOCK FALSE
