---- MODULE MC_PamsSystem_quick ----
EXTENDS PamsSystem
cSess == << [steps |-> 1, place |-> TRUE, exec |-> FALSE, maxN |-> 1, maxH |-> 1, rate |-> 2],
            [steps |-> 2, place |-> TRUE, exec |-> TRUE, maxN |-> 1, maxH |-> 1, rate |-> 2] >>
cPrices == {3, 4, 5}
cNoHalt == [on |-> FALSE, targets |-> {}, num |-> 1, den |-> 1, len |-> 0]
====
