------------------------------ MODULE TraceHooks ------------------------------
(***************************************************************************)
(* C13: a registered event hook is invoked exactly once per matching       *)
(* occurrence and only then.  Registrations are read from the real         *)
(* EventHook objects after setup:                                          *)
(*    hooks[i] = <<event id, type, isBefore, times (<<-1>> = always),      *)
(*                 filter kind (0 none, 1 class Market, 2 class            *)
(*                 IndexMarket, 3 instance), filter market id>>            *)
(* Occurrences come from the market / logger probes (acc, canc, round,     *)
(* sessB, sessE, stepB, stepE); hook calls from probe events (hook).       *)
(* Selection rule modelled (simulator.py, the _trigger_event functions): hooks of the   *)
(* occurrence's type whose time list contains the occurrence's time (or    *)
(* that have no list) and, for market-step hooks, whose class / instance   *)
(* filter matches the market; each registration fires once.                *)
(***************************************************************************)
EXTENDS TraceBase, TLC, Json, IOUtils

VARIABLES tid, l, pre, post, reqs, hk, mh, sh, v
tvars == <<tid, l, pre, post, reqs, hk, mh, sh, v>>

TraceLog_ == ndJsonDeserialize(IOEnv.TRACE_FILE)
N == Len(TraceLog_)
Hd == TraceLog_[tid]
Ev == Hd.ev
F(cur, cond, tag) == Fl(cur, cond, tag, l)
IsIdx(m) == Hd.idx[m + 1]

TimeOk(h, t) == h[4] = <<-1>> \/ \E k \in 1..Len(h[4]) : h[4][k] = t
FilterOk(h, m) == CASE h[5] = 0 -> TRUE
                    [] h[5] = 1 -> TRUE                 \* every market is a Market (IndexMarket included)
                    [] h[5] = 2 -> IsIdx(m)
                    [] h[5] = 3 -> h[6] = m
\* expected calls, one per registration (a registration whose time list repeats a time still fires once)
Expected(typ, before, t, x, isMarket) ==
  LET idxs == {i \in 1..Len(Hd.hooks) :
                 LET h == Hd.hooks[i] IN h[2] = typ /\ h[3] = before /\ TimeOk(h, t) /\ (isMarket => FilterOk(h, x))} IN
  SetToSortSeq({<<i, Hd.hooks[i][1]>> : i \in idxs}, LAMBDA a, b : a[1] < b[1])
Calls(exp, typ, before, t, x) == [k \in 1..Len(exp) |-> <<exp[k][2], typ, before, t, x>>]
AsBag(seq) == [c \in Range(seq) |-> Cardinality({i \in 1..Len(seq) : seq[i] = c})]
SameBag(a, b) == AsBag(a) = AsBag(b)
CallKey(e) == <<e.ev, e.typ, e.before, e.t, IF e.typ = "session" THEN e.s ELSE e.m>>
IsPre(e) == e.before \/ (e.typ = "session")          \* after-session hooks run before the session-end record

Init == /\ tid \in 1..N /\ l = 1 /\ pre = <<>> /\ post = <<>> /\ reqs = <<>> /\ hk = 0 /\ mh = <<>> /\ sh = <<>>
        /\ v = [C13 |-> "ok"]

\* an occurrence: all after-calls owed by the previous one are in; its before-calls are exactly the expected
Occ(vv, expPre, what) ==
  [vv EXCEPT !.C13 = F(F(F(@, post # <<>>, "C13:missing-after-call"),
                         ~SameBag(pre, expPre) /\ Len(pre) < Len(expPre), "C13:missing-before-" \o what),
                         ~SameBag(pre, expPre), "C13:extra-or-wrong-before-" \o what)]

BumpOf(evid) == LET i == FirstIdx(Hd.bump, LAMBDA b : b[1] = evid) IN IF i = 0 THEN 0 ELSE Hd.bump[i][2]
ReqOf(obj) == LET i == FirstIdx(reqs, LAMBDA r : r[1] = obj) IN IF i = 0 THEN -1 ELSE reqs[i][2]

Step ==
  /\ l <= Len(Ev) /\ l' = l + 1 /\ tid' = tid
  /\ hk' = IF Ev[l].k = "hook" THEN hk + 1 ELSE hk
  \* every session hook call of the run (judged against the configured sessions when the simulation ends)
  /\ sh' = IF Ev[l].k = "hook" /\ Ev[l].typ = "session" THEN Append(sh, CallKey(Ev[l])) ELSE sh
  \* market-step hook calls since the market's last clock step (judged again when its clock moves, see "tick")
  /\ mh' = IF Ev[l].k = "hook" /\ Ev[l].typ = "market" THEN Append(mh, CallKey(Ev[l]))
           ELSE IF Ev[l].k = "tick" THEN SelectSeq(mh, LAMBDA c : c[5] # Ev[l].m) ELSE mh
  /\ LET e == Ev[l]
         \* the same configuration and seed run WITHOUT a logger (Hd.twin): the k-th invocation is the same invocation
         twinBad == Hd.twin /\ (hk + 1 > Len(Hd.nolog) \/ Hd.nolog[hk + 1] # CallKey(e)) IN
     CASE e.k = "hook" ->
            IF IsPre(e)
            THEN /\ pre' = Append(pre, CallKey(e)) /\ UNCHANGED <<post, reqs>>
                 /\ v' = [v EXCEPT !.C13 = \* (orders only: a Cancel object may legitimately carry a placed_at of its own or be handed in again; for cancels the
                                              \*  position of the call before the acceptance in the trace is what is judged)
                                              F(F(@, e.typ = "order" /\ e.placed, "C13:before-hook-after-effect"),
                                              twinBad, "C13:hook-calls-differ-without-logger")]
            ELSE LET i == FirstIdx(post, LAMBDA x : x = CallKey(e)) IN
                 /\ post' = IF i = 0 THEN post ELSE RemoveAt(post, i)
                 /\ v' = [v EXCEPT !.C13 = F(F(@, i = 0, "C13:extra-or-wrong-after-" \o e.typ),
                                              twinBad, "C13:hook-calls-differ-without-logger")]
                 /\ UNCHANGED <<pre, reqs>>
       [] e.k = "ret" ->
            /\ reqs' = reqs \o [k \in 1..Len(SelectSeq(e.batch, LAMBDA b : b[1] = "o")) |->
                                  LET b == SelectSeq(e.batch, LAMBDA x : x[1] = "o")[k] IN <<b[8], b[5], b[4]>>]
            /\ UNCHANGED <<pre, post, v>>
       [] e.k = "acc" ->
            LET expPre == Calls(Expected("order", TRUE, e.tm, e.m, FALSE), "order", TRUE, e.tm, e.m)
                bumped == FoldLeft(LAMBDA acc, c : acc + BumpOf(c[1]), 0, pre)
                r0 == ReqOf(e.obj) IN
            /\ v' = [Occ(v, expPre, "order") EXCEPT
                       !.C13 = F(@, Hd.exact /\ ~e.mo /\ r0 >= 0 /\ e.req >= 0 /\ Len(Hd.bump) > 0 /\ e.req # r0 + 2 * bumped,
                                 "C13:alteration-by-before-hook-lost")]
            /\ pre' = <<>>
            /\ post' = Calls(Expected("order", FALSE, e.t, e.m, FALSE), "order", FALSE, e.t, e.m)
            /\ UNCHANGED reqs
       [] e.k = "canc" ->
            /\ v' = Occ(v, Calls(Expected("cancel", TRUE, e.tm, e.m, FALSE), "cancel", TRUE, e.tm, e.m), "cancel")
            /\ pre' = <<>>
            /\ post' = Calls(Expected("cancel", FALSE, e.tm, e.m, FALSE), "cancel", FALSE, e.tm, e.m)
            /\ UNCHANGED reqs
       [] e.k = "round" ->
            /\ v' = Occ(v, <<>>, "round")
            /\ pre' = <<>>
            /\ post' = FoldLeft(LAMBDA acc, f : acc \o Calls(Expected("execution", FALSE, e.t, e.m, FALSE), "execution", FALSE, e.t, e.m),
                                <<>>, e.fills)
            /\ UNCHANGED reqs
       [] e.k = "sessB" ->
            /\ v' = Occ(v, Calls(Expected("session", TRUE, e.start, e.s, FALSE), "session", TRUE, e.start, e.s), "session")
            /\ pre' = <<>> /\ post' = <<>> /\ UNCHANGED reqs
       [] e.k = "sessE" ->
            LET st == Hd.sess[e.s + 1]  t == st[7] + st[1] - 1 IN
            /\ v' = Occ(v, Calls(Expected("session", FALSE, t, e.s, FALSE), "session", FALSE, t, e.s), "session-end")
            /\ pre' = <<>> /\ post' = <<>> /\ UNCHANGED reqs
       [] e.k = "stepB" ->
            /\ v' = Occ(v, Calls(Expected("market", TRUE, e.t, e.m, TRUE), "market", TRUE, e.t, e.m), "market-step")
            /\ pre' = <<>> /\ post' = <<>> /\ UNCHANGED reqs
       [] e.k = "stepE" ->
            /\ v' = Occ(v, <<>>, "market-step-end")
            /\ pre' = <<>>
            /\ post' = Calls(Expected("market", FALSE, e.t, e.m, TRUE), "market", FALSE, e.t, e.m)
            /\ UNCHANGED reqs
       [] e.k = "tick" ->
            \* the clock of market e.m moves to e.t: step e.t - 1 is over, whatever the logger was told about it - its
            \* before-step and after-step hooks have been called (an occurrence marker that does not depend on log records)
            LET owedB == Calls(Expected("market", TRUE, e.t - 1, e.m, TRUE), "market", TRUE, e.t - 1, e.m)
                owedA == Calls(Expected("market", FALSE, e.t - 1, e.m, TRUE), "market", FALSE, e.t - 1, e.m)
                cnt(seq, c) == Cardinality({i \in 1..Len(seq) : seq[i] = c})
                lacks(owed) == \E i \in 1..Len(owed) : cnt(mh, owed[i]) < cnt(owed, owed[i]) IN
            /\ v' = [v EXCEPT !.C13 = F(F(@, e.t >= 1 /\ lacks(owedB), "C13:before-step-hook-not-called-in-a-step"),
                                         e.t >= 1 /\ lacks(owedA), "C13:after-step-hook-not-called-in-a-step")]
            /\ UNCHANGED <<pre, post, reqs>>
       [] e.k = "simE" ->
            \* every configured session - also one of no steps - begins and ends: over the whole run the session hooks called are
            \* those the sessions of the CONFIGURATION owe (independent of the session records of the logger)
            LET owedS == FoldLeft(LAMBDA acc, i :
                             LET st == Hd.sess[i]  t1 == st[7] + st[1] - 1 IN
                             acc \o Calls(Expected("session", TRUE, st[7], i - 1, FALSE), "session", TRUE, st[7], i - 1)
                                 \o Calls(Expected("session", FALSE, t1, i - 1, FALSE), "session", FALSE, t1, i - 1),
                             <<>>, [i \in 1..Len(Hd.sess) |-> i]) IN
            /\ v' = [Occ(v, <<>>, "simulation-end") EXCEPT
                       !.C13 = F(F(@, Hd.twin /\ hk # Len(Hd.nolog), "C13:more-hook-calls-without-logger"),
                                 ~SameBag(sh, owedS), "C13:session-hooks-over-the-run")]
            /\ UNCHANGED <<pre, post, reqs>>
       [] e.k = "abort" ->
            /\ v' = [v EXCEPT !.C13 = F(@, e.phase = "hooks", "C13:run-aborted-in-" \o e.phase \o "-" \o e.exc)]
            /\ UNCHANGED <<pre, post, reqs>>
       [] OTHER -> UNCHANGED <<pre, post, reqs, v>>

Done == l = Len(Ev) + 1
Report == Done => PrintT(<<"VERDICT", tid, TRUE, v>>)
Spec == Init /\ [][Step]_tvars
=============================================================================
