----------------------------- MODULE TraceLedger -----------------------------
(***************************************************************************)
(* C05 and C11 on recorded runs of the real SequentialRunner.              *)
(* Events (harness/probes.py):  init, acc, canc, round, applied, cb,       *)
(* stepE, simE, abort.  The model ledger is the endowment folded, in       *)
(* order, with the fills reported by the matching rounds; every snapshot   *)
(* of all holdings taken by the probes must equal it (C05).  Callbacks:    *)
(* each accepted order / cancel owes one callback to its owner, each fill  *)
(* one to the buyer and one to the seller, after the holdings of the whole *)
(* round have been applied (C11).                                          *)
(***************************************************************************)
EXTENDS PamsLedger, TLC, Json, IOUtils

VARIABLES tid, l, led, led0, pend, owed, v
tvars == <<tid, l, led, led0, pend, owed, v>>

TraceLog == ndJsonDeserialize(IOEnv.TRACE_FILE)
N == Len(TraceLog)
Hd == TraceLog[tid]
Ev == Hd.ev
F(cur, cond, tag) == Fl(cur, cond, tag, l)

Init == /\ tid \in 1..N /\ l = 1
        /\ led = <<>> /\ led0 = <<>> /\ pend = <<>> /\ owed = <<>>
        /\ v = [C05 |-> "ok", C11 |-> "ok"]

HoldV(vv, e, L) ==
  [vv EXCEPT !.C05 = F(F(@, e.hold # L, "C05:holdings-differ-from-fold"),
                       led0 # <<>> /\ ~Conserved(led0, e.hold), "C05:not-conserved")]

\* callbacks owed: <<kind, agent, market, x, y, z, w>>
OweOrder(e) == <<"sub", e.a, e.m, e.id, 0, 0, 0>>
OweCancel(e) == <<"can", e.a, e.m, e.id, 0, 0, 0>>
OweFills(fills) ==
  FoldLeft(LAMBDA acc, f : acc \o << <<"exe", f[5], f[8], f[1], f[2], f[4], f[3]>>, <<"exe", f[6], f[8], f[1], f[2], f[4], f[3]>> >>,
           <<>>, fills)
CbKey(e) == IF e.kind = "exe" THEN <<"exe", e.a, e.m, e.b, e.s, e.v, e.px>>
            ELSE <<e.kind, e.a, e.m, e.id, 0, 0, 0>>

Step ==
  /\ l <= Len(Ev) /\ l' = l + 1 /\ tid' = tid
  /\ LET e == Ev[l] IN
     CASE e.k = "init" ->
            /\ led' = e.hold /\ led0' = e.hold /\ UNCHANGED <<pend, owed, v>>
       [] e.k = "acc" ->
            /\ owed' = Append(owed, OweOrder(e))
            /\ v' = [v EXCEPT !.C05 = F(@, pend # <<>>, "C05:fills-never-applied")]
            /\ UNCHANGED <<led, led0, pend>>
       [] e.k = "canc" ->
            /\ owed' = Append(owed, OweCancel(e))
            /\ v' = [v EXCEPT !.C05 = F(@, pend # <<>>, "C05:fills-never-applied")]
            /\ UNCHANGED <<led, led0, pend>>
       [] e.k = "round" ->
            /\ pend' = e.fills
            /\ v' = [v EXCEPT !.C05 = F(@, pend # <<>>, "C05:fills-never-applied")]
            /\ UNCHANGED <<led, led0, owed>>
       [] e.k = "applied" ->
            \* holdings change here, exactly once per round, by the fills of that round
            LET L2 == ApplyFills(led, pend, Hd.cs) IN
            /\ led' = L2 /\ pend' = <<>>
            /\ owed' = owed \o OweFills(pend)
            /\ v' = HoldV([v EXCEPT !.C05 = F(@, e.n # Len(pend), "C05:applied-count")], e, L2)
            /\ UNCHANGED led0
       [] e.k = "cb" ->
            LET key == CbKey(e)
                i == FirstIdx(owed, LAMBDA x : x = key)
                other == FirstIdx(owed, LAMBDA x : x[1] = key[1] /\ x[3] = key[3] /\ x[4] = key[4] /\ x[5] = key[5]) IN
            /\ owed' = IF i = 0 THEN owed ELSE RemoveAt(owed, i)
            /\ v' = HoldV([v EXCEPT !.C11 =
                     F(F(F(@, e.kind = "exe" /\ (pend # <<>> \/ e.hold # led), "C11:before-holdings-of-the-whole-round"),
                         i = 0 /\ other # 0, IF e.kind = "exe" THEN "C11:wrong-party-or-record" ELSE "C11:wrong-party"),
                         i = 0 /\ other = 0, "C11:extra-" \o e.kind)], e, led)
            /\ UNCHANGED <<led, led0, pend>>
       [] e.k = "stepE" ->
            /\ v' = HoldV(v, e, led) /\ UNCHANGED <<led, led0, pend, owed>>
       [] e.k = "simE" ->
            /\ v' = HoldV([v EXCEPT !.C11 = F(@, owed # <<>>, "C11:missing-" \o (IF owed = <<>> THEN "" ELSE owed[1][1])),
                                    !.C05 = F(@, pend # <<>>, "C05:fills-never-applied")], e, led)
            /\ UNCHANGED <<led, led0, pend, owed>>
       [] e.k = "abort" ->
            /\ v' = [v EXCEPT !.C05 = F(@, e.phase = "ledger", "C05:run-aborted-in-ledger-" \o e.exc),
                              !.C11 = F(@, e.phase = "callback", "C11:run-aborted-in-callback-" \o e.exc)]
            /\ UNCHANGED <<led, led0, pend, owed>>
       [] OTHER -> UNCHANGED <<led, led0, pend, owed, v>>

Done == l = Len(Ev) + 1
Report == Done => PrintT(<<"VERDICT", tid, TRUE, v>>)
Spec == Init /\ [][Step]_tvars
=============================================================================
