----------------------------- MODULE TraceLedger -----------------------------
(***************************************************************************)
(* C05 and C11 on recorded runs of the real SequentialRunner.              *)
(* Events (harness/probes.py):  init, acc, canc, round, applied, cb,       *)
(* stepE, simE, abort.  The model ledger is the endowment folded, in       *)
(* order, with the fills reported by the matching rounds; every snapshot   *)
(* of all holdings taken by the probes must equal it (C05).  Callbacks:    *)
(* each accepted order / cancel owes one callback to its owner, each fill  *)
(* one to the buyer and one to the seller, after the holdings of the whole *)
(* round have been applied (C11).                                          *)
(***************************************************************************)
EXTENDS PamsLedger, TLC, Json, IOUtils

VARIABLES tid, l, led, led0, pend, owed, v
tvars == <<tid, l, led, led0, pend, owed, v>>

TraceLog == ndJsonDeserialize(IOEnv.TRACE_FILE)
N == Len(TraceLog)
Hd == TraceLog[tid]
Ev == Hd.ev
F(cur, cond, tag) == Fl(cur, cond, tag, l)

Init == /\ tid \in 1..N /\ l = 1
        /\ led = <<>> /\ led0 = <<>> /\ pend = <<>> /\ owed = <<>>
        /\ v = [C05 |-> "ok", C11 |-> "ok"]

\* ---- observing holdings.  The fills of a round may have been applied completely, not yet, or - at points that are
\* not callbacks - up to some prefix; where exactly the implementation applies them is not part of C05.
\* Applied(k) = ledger after the first k pending fills.
Applied(k) == ApplyFills(led, SubSeq(pend, 1, k), Hd.cs)
Ks(H) == {k \in 0..Len(pend) : Applied(k) = H}
\* the model follows the observation: the largest prefix that explains it
Observe(H) == IF Ks(H) = {} THEN <<led, pend, FALSE>>
              ELSE LET k == CHOOSE x \in Ks(H) : \A y \in Ks(H) : x >= y IN <<Applied(k), SubSeq(pend, k + 1, Len(pend)), TRUE>>
HoldV(vv, H, ok) ==
  [vv EXCEPT !.C05 = F(F(@, ~ok, "C05:holdings-differ-from-fold"),
                       led0 # <<>> /\ ~Conserved(led0, H), "C05:not-conserved")]

\* callbacks owed: <<kind, agent, market, x, y, z, w>>
OweOrder(e) == <<"sub", e.a, e.m, e.id, 0, 0, 0>>
OweCancel(e) == <<"can", e.a, e.m, e.id, 0, 0, 0>>
OweFills(fills) ==
  FoldLeft(LAMBDA acc, f : acc \o << <<"exe", f[5], f[8], f[1], f[2], f[4], f[3]>>, <<"exe", f[6], f[8], f[1], f[2], f[4], f[3]>> >>,
           <<>>, fills)
CbKey(e) == IF e.kind = "exe" THEN <<"exe", e.a, e.m, e.b, e.s, e.v, e.px>>
            ELSE <<e.kind, e.a, e.m, e.id, 0, 0, 0>>

Step ==
  /\ l <= Len(Ev) /\ l' = l + 1 /\ tid' = tid
  /\ LET e == Ev[l] IN
     CASE e.k = "init" ->
            \* e.endow: the endowment as the configuration declares it (<<>> when it is not a constant there)
            /\ led' = e.hold /\ led0' = e.hold /\ UNCHANGED <<pend, owed>>
            /\ v' = [v EXCEPT !.C05 = F(@, e.endow # <<>> /\ e.endow # e.hold, "C05:endowment-differs-from-the-configuration")]
       [] e.k = "acc" ->
            /\ owed' = Append(owed, OweOrder(e)) /\ UNCHANGED <<led, led0, pend, v>>
       [] e.k = "canc" ->
            /\ owed' = Append(owed, OweCancel(e)) /\ UNCHANGED <<led, led0, pend, v>>
       [] e.k = "round" ->
            \* the fills of this round are pending until an observation shows them applied; each owes two callbacks
            /\ pend' = pend \o e.fills
            /\ owed' = owed \o OweFills(e.fills)
            /\ UNCHANGED <<led, led0, v>>
       [] e.k = "applied" ->
            LET o == Observe(e.hold) IN
            /\ led' = o[1] /\ pend' = o[2] /\ v' = HoldV(v, e.hold, o[3]) /\ UNCHANGED <<led0, owed>>
       [] e.k = "cb" ->
            LET key == CbKey(e)
                i == FirstIdx(owed, LAMBDA x : x = key)
                other == FirstIdx(owed, LAMBDA x : x[1] = key[1] /\ x[3] = key[3] /\ x[4] = key[4] /\ x[5] = key[5])
                o == Observe(e.hold) IN
            /\ owed' = IF i = 0 THEN owed ELSE RemoveAt(owed, i)
            /\ led' = o[1] /\ pend' = o[2]
            /\ v' = HoldV([v EXCEPT !.C11 =
                     \* a fill is reported to its parties only after the holdings of the WHOLE round have been updated
                     F(F(F(@, e.kind = "exe" /\ (o[2] # <<>> \/ ~o[3]), "C11:before-holdings-of-the-whole-round"),
                         i = 0 /\ other # 0, IF e.kind = "exe" THEN "C11:wrong-party-or-record" ELSE "C11:wrong-party"),
                         i = 0 /\ other = 0, "C11:extra-" \o e.kind),
                                    \* "the fills reported so far": a fill an agent is told about is in the holdings by then
                                    !.C05 = F(@, e.kind = "exe" /\ o[3] /\ \E j \in 1..Len(o[2]) :
                                                   o[2][j][1] = e.b /\ o[2][j][2] = e.s /\ o[2][j][8] = e.m /\ o[2][j][4] = e.v,
                                              "C05:reported-fill-not-yet-in-holdings")], e.hold, o[3])
            /\ UNCHANGED led0
       [] e.k = "stepE" ->
            LET o == Observe(e.hold) IN
            /\ led' = o[1] /\ pend' = o[2]
            /\ v' = [HoldV(v, e.hold, o[3]) EXCEPT !.C05 = F(@, o[2] # <<>>, "C05:fills-never-applied")]
            /\ UNCHANGED <<led0, owed>>
       [] e.k = "simE" ->
            LET o == Observe(e.hold) IN
            /\ led' = o[1] /\ pend' = o[2]
            /\ v' = HoldV([v EXCEPT !.C11 = F(@, owed # <<>>, "C11:missing-" \o (IF owed = <<>> THEN "" ELSE owed[1][1])),
                                    !.C05 = F(@, o[2] # <<>>, "C05:fills-never-applied")], e.hold, o[3])
            /\ UNCHANGED <<led0, owed>>
       [] e.k = "abort" ->
            /\ v' = [v EXCEPT !.C05 = F(@, e.phase = "ledger", "C05:run-aborted-in-ledger-" \o e.exc),
                              !.C11 = F(@, e.phase = "callback", "C11:run-aborted-in-callback-" \o e.exc)]
            /\ UNCHANGED <<led, led0, pend, owed>>
       [] OTHER -> UNCHANGED <<led, led0, pend, owed, v>>

Done == l = Len(Ev) + 1
Report == Done => PrintT(<<"VERDICT", tid, TRUE, v>>)
Spec == Init /\ [][Step]_tvars
=============================================================================
