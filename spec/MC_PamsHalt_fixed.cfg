SPECIFICATION Spec
CONSTANTS
  M = 3
  Rules <- cRules
  L = 1
  SessSteps <- cSteps
  SessExec <- cExec
  MaxRounds = 2
  VARIANT = "fixed"
INVARIANT NoFillWithoutExec
INVARIANT NoCrash
INVARIANT HaltRespected
INVARIANT Resumed
INVARIANT SwitchRestored
INVARIANT StoppedOnlyByHalt
CHECK_DEADLOCK FALSE
