---- MODULE MC_PamsHalt_quick ----
EXTENDS PamsHalt
cRules == << {1}, {1, 2} >>
cSteps == <<3, 2, 2>>
cExec == <<TRUE, FALSE, TRUE>>
====
