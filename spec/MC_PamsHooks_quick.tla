---- MODULE MC_PamsHooks_quick ----
\* every registry history of up to 2 registrations (quick) or 3 registrations (thorough) (two kinds, time lists with a repeated time, all filters) and
\* 1 or 2 occurrences
EXTENDS PamsHooks
cKinds == {"order_before", "market_after"}
cTimes == {0, 1}
cLists == {<<NoTime>>, <<>>, <<0>>, <<1>>, <<0, 1>>, <<1, 1>>, <<1, 0, 1>>}
cIdx == <<FALSE, TRUE>>
====
