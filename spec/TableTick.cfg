SPECIFICATION Spec
CONSTANTS
  Dens = {2, 4, 8, 16, 32, 80}
  MaxReq = 1024
INVARIANT Lemmas
CHECK_DEADLOCK FALSE
