---- MODULE MC_PamsRunner_quick ----
EXTENDS PamsRunner
cSess == << [steps |-> 1, place |-> TRUE, exec |-> FALSE, maxN |-> 2, maxH |-> 1, rate |-> 1],
            [steps |-> 2, place |-> TRUE, exec |-> TRUE, maxN |-> 1, maxH |-> 1, rate |-> 2] >>
cIndex == {2}
====
