SPECIFICATION Spec
CONSTANTS
  Den = 2
  P0 = 2
  ReqPrices <- cReq
  Vols = {1, 2}
  TTLs = {0}
  MaxOrders = 3
  MaxClock = 1
  Halts = TRUE
INVARIANT MatchInv
INVARIANT NeverRaised
INVARIANT AcctInv
INVARIANT LifetimeInv
INVARIANT IdsInv
INVARIANT HistLen
INVARIANT StatsInv
PROPERTY ContinuousResting
PROPERTY FillOnlyLive
PROPERTY LeavesExactly
PROPERTY HistoryImmutable
PROPERTY ClockStep
PROPERTY C08Step
PROPERTY C19Step
CHECK_DEADLOCK FALSE
