SPECIFICATION Spec
CONSTANTS
  Kinds <- cKinds
  MaxLogs = 5
  MaxBulk = 2
VIEW view
INVARIANT AtMostOnce
INVARIANT ExactlyOnce
INVARIANT Routing
INVARIANT NothingLost
INVARIANT QueueOrder
PROPERTY DirectIsSynchronous
PROPERTY FlushDelivers
CHECK_DEADLOCK FALSE
