------------------------------ MODULE PamsHooks ------------------------------
(***************************************************************************)
(* The event-hook registry of the simulator (C13).                         *)
(*                                                                         *)
(* Reference layer - a transcription of pams/simulator.py:                 *)
(*   Register   = Simulator._add_event          (simulator.py:88-119)      *)
(*   Dispatch   = the nine _trigger_event_* functions (281-465): the hooks *)
(*                filed under "no time" first, then those filed under the  *)
(*                occurrence's time, each list in registration order; for  *)
(*                market-step hooks the class / instance filter            *)
(*                (_check_event_class_and_instance, 257-279)               *)
(*   tab        = Simulator.events_dict: register name -> key -> list      *)
(*                (key NoTime stands for Python's None)                    *)
(*                                                                         *)
(* Property layer - what C13 states, independent of the table:             *)
(*   Matches(h, kind, t, m): registration h is for this kind of            *)
(*   occurrence, its time list contains t (or it has none), and, for       *)
(*   market steps, its filter admits market m.                             *)
(*   ExactlyOnce: an occurrence invokes every matching registration once   *)
(*   and no other registration.                                            *)
(*                                                                         *)
(* A registration is an EventHook OBJECT (identity, no __eq__): two hooks  *)
(* with the same fields are two registrations; registering the same        *)
(* object again is refused and changes nothing (RegisterAgain).            *)
(* The history variable act carries the action and its arguments for the   *)
(* spec -> code replay (harness/replay_hooks.py).                          *)
(***************************************************************************)
EXTENDS PamsHookOps, TLC

CONSTANTS Kinds,      \* register names used: "order_before", "market_after", ...
          Times,      \* occurrence times
          TimeLists,  \* time lists a hook may carry (sequences over Times, repeats allowed, <<>> = never); <<NoTime>> = no list
          NEvents,    \* events 1..NEvents (one event may own many hooks)
          IsIdx,      \* IsIdx[m]: market m is an IndexMarket (markets are 0..Len(IsIdx)-1)
          MaxReg, MaxTrig

Mk == 0..(Len(IsIdx) - 1)
\* filter: <<0, -1>> none, <<1, -1>> class Market, <<2, -1>> class IndexMarket, <<3, m>> instance m
Filters == {<<0, -1>>, <<1, -1>>, <<2, -1>>} \cup {<<3, m>> : m \in Mk}

VARIABLES reg,    \* registrations in registration order: [ev, kind, times, flt]
          tab,    \* [kind -> [key -> Seq(index into reg)]]   (key in Times \cup {NoTime}; missing key = empty list)
          calls,  \* the invocations of the last occurrence (indices into reg, in invocation order)
          occ,    \* the last occurrence <<kind, t, m>> or <<>>
          ntrig, act
vars == <<reg, tab, calls, occ, ntrig, act>>
view == <<reg, tab, calls, occ, ntrig>>          \* act only labels the last step

Keys == Times \cup {NoTime}
Init == /\ reg = <<>>
        /\ tab = [k \in Kinds |-> [key \in Keys |-> <<>>]]
        /\ calls = <<>> /\ occ = <<>> /\ ntrig = 0
        /\ act = <<"init">>

\* ------------------------------------------------------------------ reference layer
File(t, kind, keys, idx) ==
  [t EXCEPT ![kind] = [key \in Keys |-> IF \E i \in 1..Len(keys) : keys[i] = key THEN Append(t[kind][key], idx) ELSE t[kind][key]]]

Register(ev, kind, times, flt) ==
  /\ Len(reg) < MaxReg
  /\ (kind \notin MarketKinds => flt = <<0, -1>>)                   \* EventHook.__init__ refuses filters elsewhere
  /\ reg' = Append(reg, [ev |-> ev, kind |-> kind, times |-> times, flt |-> flt])
  /\ tab' = File(tab, kind, DistinctKeys(times), Len(reg) + 1)
  /\ act' = <<"register", ev, kind, times, flt>>
  /\ calls' = <<>> /\ occ' = <<>>              \* the last occurrence is judged against the registry it saw
  /\ UNCHANGED ntrig

\* the same EventHook object handed to _add_event again: ValueError, nothing changes
RegisterAgain(i) ==
  /\ i \in 1..Len(reg)
  /\ act' = <<"again", i>>
  /\ UNCHANGED <<reg, tab, calls, occ, ntrig>>

Dispatch(kind, t, m) ==
  LET cand == tab[kind][NoTime] \o tab[kind][t] IN
  IF kind \in MarketKinds THEN SelectSeq(cand, LAMBDA i : FilterOk(reg[i], m, IsIdx)) ELSE cand

Trigger(kind, t, m) ==
  /\ ntrig < MaxTrig
  /\ (kind \notin MarketKinds => m = 0)
  /\ calls' = Dispatch(kind, t, m)
  /\ occ' = <<kind, t, m>>
  /\ ntrig' = ntrig + 1
  /\ act' = <<"trigger", kind, t, m>>
  /\ UNCHANGED <<reg, tab>>

Next == \/ \E ev \in 1..NEvents, kind \in Kinds, times \in TimeLists, flt \in Filters : Register(ev, kind, times, flt)
        \/ \E i \in 1..MaxReg : RegisterAgain(i)
        \/ \E kind \in Kinds, t \in Times, m \in Mk : Trigger(kind, t, m)
Spec == Init /\ [][Next]_vars

\* ------------------------------------------------------------------ property layer
\* C13: exactly once per matching occurrence and only then
ExactlyOnce ==
  occ # <<>> => \A i \in 1..Len(reg) : Count(calls, i) = IF Matches(reg[i], occ[1], occ[2], occ[3], IsIdx) THEN 1 ELSE 0
OnlyRegistered == \A k \in 1..Len(calls) : calls[k] \in 1..Len(reg)

\* the table files every registration once under each DISTINCT key of its time list and nowhere else
TableSound ==
  \A kind \in Kinds, key \in Keys, i \in 1..Len(reg) :
    Count(tab[kind][key], i) = IF reg[i].kind = kind /\ (IF key = NoTime THEN reg[i].times = <<NoTime>>
                                                         ELSE reg[i].times # <<NoTime>> /\ InList(reg[i].times, key))
                               THEN 1 ELSE 0
\* invocation order (not part of C13; it is what makes finding D7 happen): hooks without a time list first, then
\* the hooks listed for the time, each group in registration order
DispatchOrder == occ # <<>> => calls = OwedInOrder(reg, occ[1], occ[2], occ[3], IsIdx)
\* a refused re-registration and an occurrence never change what is registered
RegistryStable == [][(act'[1] \in {"again", "trigger"}) => UNCHANGED <<reg, tab>>]_vars
=============================================================================
