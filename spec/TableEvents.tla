----------------------------- MODULE TableEvents -----------------------------
(* Lemmas of the event arithmetic over a grid (one state per case): what C14 / C15 / C16 / C17 need from it. *)
EXTENDS PamsEvents, TLC
CONSTANTS P0s, Rates, MaxReq
VARIABLES p0, r, req, buy
Init == p0 \in P0s /\ r \in Rates /\ req \in 1..MaxReq /\ buy \in BOOLEAN
Next == UNCHANGED <<p0, r, req, buy>>
Spec == Init /\ [][Next]_<<p0, r, req, buy>>
P == p0 * FDEN            \* reference price in fine units (on the grid)
Q == req * (FDEN \div 4)  \* requested prices on a quarter-tick grid
Num == r[1]  Dnm == r[2]
ClipLemmas ==
  LET c == Clip(Q, P, Num, Dnm)  a == RoundFine(c, buy) IN
  /\ (Inside(Q, P, Num, Dnm) => c = Q)                                   \* inside the band: unchanged
  /\ (~Inside(Q, P, Num, Dnm) => (c >= Lo(P, Num, Dnm) /\ c <= Hi(P, Num, Dnm)))   \* otherwise: into the band
  /\ (Q >= Lo(P, Num, Dnm) /\ Q <= Hi(P, Num, Dnm) => c = Q)             \* anything already in the band is kept
  /\ InBandWide(a, P, Num, Dnm)                                          \* after tick rounding: band widened by one tick
  /\ Clip(c, P, Num, Dnm) = c                                            \* idempotent
ShockLemmas ==
  /\ ShockExact(P, Num, Dnm) => Shock(P, Num, Dnm) * Dnm = P * (Dnm + Num)
  /\ Shock(Shock(P, Num, Dnm), -Num, Dnm) * Dnm * Dnm = P * (Dnm + Num) * (Dnm - Num) \/ ~ShockExact(Shock(P, Num, Dnm), -Num, Dnm)
  /\ (buy => MistakePrice(Q, Num, Dnm) * Dnm <= Q * (Dnm + Num)) /\ MistakePrice(Q, Num, Dnm) % FDEN = 0
HaltLemmas ==
  /\ ~HaltHit(P, P, Num, Dnm, 0)                                          \* no deviation: no halt
  /\ \A n \in 0..3 : HaltHit(P, Q, Num, Dnm, n + 1) => HaltHit(P, Q, Num, Dnm, n)   \* the line moves outwards
  /\ (HaltHit(P, Q, Num, Dnm, 0) <=> ~Inside(Q, P, Num, Dnm))
IndexLemmas ==
  LET w == <<64, 192>>  vals == <<P, Q>>  comps == <<0, 1>> IN
  /\ WTot(comps, w) = 256
  /\ WSum(comps, w, vals) >= Min({P, Q}) * 256 /\ WSum(comps, w, vals) <= Max({P, Q}) * 256
  /\ WSum(comps, w, <<P, P>>) = P * 256
=============================================================================
