----------------------------- MODULE PamsMarket -----------------------------
(***************************************************************************)
(* State machine of ONE market driven by arbitrary histories of            *)
(* submissions (limit / market, on and off the tick grid, any ttl),        *)
(* cancels (of resting, partially filled, filled, expired and already      *)
(* cancelled orders), clock steps, matching rounds and switches of the     *)
(* running flag.  Matching may follow every order (continuous trading) or  *)
(* be postponed arbitrarily (crossed books accumulate and are cleared in   *)
(* one round): both are interleavings of Submit and DoMatch.               *)
(*                                                                         *)
(* TLC checks on every reachable state / step that the reference layer     *)
(* (PamsBook, PamsMarketOps: a transcription of market.py) satisfies the   *)
(* property layer: C01 C02 C03 (MatchInv, NeverRaised), C04 (AcctInv,      *)
(* LifetimeInv, FillOnlyLive), C08 (C08Step, StatsInv), C19 (C19Step),     *)
(* C06 for one market (HistoryImmutable, ClockStep).                       *)
(***************************************************************************)
EXTENDS PamsMarketOps, TLC

CONSTANTS Den,        \* units per tick
          P0,         \* initial market price (units)
          ReqPrices,  \* requested prices (units; not necessarily multiples of Den)
          Vols, TTLs, \* ttl 0 = none
          MaxOrders, MaxClock,
          Halts       \* whether the running flag may be switched (sessions without execution, halts)

VARIABLES mkt,    \* the market record
          acct,   \* id -> [acc, filled, term, tvol, tat, t0, ttl]: accepted volume, filled so far, first terminal event
          hx,     \* independent bookkeeping of what happened in the current step (for C08)
          evt,    \* the action that produced this state (read by the action properties)
          raised  \* some round tripped an assertion of _execution

vars == <<mkt, acct, hx, evt, raised>>

NoTerm == 0  Cancelled == 1  ExpiredT == 2

Init ==
  /\ mkt = MSetRunning(MTick(MNew(Den, P0), P0), TRUE)
  /\ acct = <<>>                       \* sequence indexed by id + 1
  /\ hx = [lastTrade |-> NoPx, vol |-> 0, tot |-> 0, nB |-> 0, nS |-> 0]
  /\ evt = [k |-> "init"]
  /\ raised = FALSE

Submit(isBuy, isMo, req, vol, ttl) ==
  /\ mkt.nextId < MaxOrders
  /\ mkt' = MAccept(mkt, 0, isBuy, isMo, req, vol, ttl)
  /\ acct' = Append(acct, [acc |-> vol, filled |-> 0, term |-> NoTerm, tvol |-> 0, tat |-> 0,
                            t0 |-> mkt.clock, ttl |-> ttl])
  /\ hx' = IF isBuy THEN [hx EXCEPT !.nB = @ + 1] ELSE [hx EXCEPT !.nS = @ + 1]
  /\ evt' = [k |-> "sub", id |-> mkt.nextId, buy |-> isBuy, mo |-> isMo, req |-> req, vol |-> vol, ttl |-> ttl]
  /\ UNCHANGED raised

\* cancel of any order ever accepted; only the FIRST terminal event is recorded
CancelOrder(id) ==
  /\ id < mkt.nextId
  /\ mkt' = MCancel(mkt, id)
  /\ acct' = IF acct[id + 1].term # NoTerm THEN acct
             ELSE [acct EXCEPT ![id + 1].term = Cancelled, ![id + 1].tat = mkt.clock,
                               ![id + 1].tvol = IF InBook(mkt.live, id) THEN ById(mkt.live, id).vol ELSE 0]
  /\ evt' = [k |-> "can", id |-> id]
  /\ UNCHANGED <<hx, raised>>

Tick ==
  /\ mkt.clock < MaxClock
  /\ mkt' = MTick(mkt, P0)
  /\ LET gone == Expired(mkt.live, mkt.clock + 1) IN
     acct' = [i \in 1..Len(acct) |->
                IF InBook(gone, i - 1)
                THEN [acct[i] EXCEPT !.term = ExpiredT, !.tat = mkt.clock + 1, !.tvol = ById(gone, i - 1).vol]
                ELSE acct[i]]
  /\ hx' = [hx EXCEPT !.vol = 0, !.tot = 0, !.nB = 0, !.nS = 0]
  /\ evt' = [k |-> "tick"]
  /\ UNCHANGED raised

\* one matching round (the runner calls it only while its execution switch is on)
DoMatch ==
  /\ mkt.running
  /\ LET r == MRound(mkt) IN
     /\ mkt' = r.m
     /\ raised' = (raised \/ r.raised)
     /\ acct' = [i \in 1..Len(acct) |-> [acct[i] EXCEPT !.filled = @ + FilledOf(r.pend, i - 1)]]
     /\ hx' = IF Len(r.pend) = 0 THEN hx
              ELSE [hx EXCEPT !.lastTrade = r.px, !.vol = @ + TotalVol(r.pend), !.tot = @ + TotalVol(r.pend) * r.px]
     /\ evt' = [k |-> IF Len(r.pend) = 0 THEN "noop" ELSE "fill", pend |-> r.pend, px |-> r.px]

SetRunning(b) ==
  /\ Halts
  /\ mkt.running # b
  /\ mkt' = MSetRunning(mkt, b)
  /\ evt' = [k |-> "run"]
  /\ UNCHANGED <<acct, hx, raised>>

\* Market._set_time: the clock jumps several steps at once (JumpSizes is {} unless a model overrides it)
JumpSizes == {}
Jump(k) ==
  /\ mkt.clock + k <= MaxClock
  /\ mkt' = MJump(mkt, mkt.clock + k, P0)
  /\ LET gone == Expired(mkt.live, mkt.clock + k) IN
     acct' = [i \in 1..Len(acct) |->
                IF InBook(gone, i - 1)
                THEN [acct[i] EXCEPT !.term = ExpiredT, !.tat = mkt.clock + k, !.tvol = ById(gone, i - 1).vol]
                ELSE acct[i]]
  /\ hx' = [hx EXCEPT !.vol = 0, !.tot = 0, !.nB = 0, !.nS = 0]
  /\ evt' = [k |-> "jump", by |-> k]
  /\ UNCHANGED raised

SubmitAny == \E isBuy \in BOOLEAN, isMo \in BOOLEAN, req \in ReqPrices, vol \in Vols, ttl \in TTLs :
               /\ (isMo => req = CHOOSE x \in ReqPrices : TRUE)      \* price irrelevant for market orders
               /\ Submit(isBuy, isMo, req, vol, ttl)
Next == \/ SubmitAny
        \/ \E id \in 0..(MaxOrders - 1) : CancelOrder(id)
        \/ Tick
        \/ \E k \in JumpSizes : Jump(k)
        \/ DoMatch
        \/ \E b \in BOOLEAN : SetRunning(b)
Spec == Init /\ [][Next]_vars

\* ------------------------------------------------------------------ C01 C02 C03
MatchInv == MatchProps(mkt.live)         \* on EVERY reachable book, crossed or not
NeverRaised == ~raised
\* continuous trading: if the book was uncrossed and the round follows one new order, the price is that of
\* an order that was already resting (the new order's own price only against a resting market order)
ContinuousResting ==
  [][(evt.k = "sub" /\ evt'.k = "fill") =>
       LET inc == evt.id
           lastp == evt'.pend[Len(evt'.pend)]
           other == IF lastp.b = inc THEN lastp.s ELSE lastp.b IN
       (C03ok({o \in mkt.live : o.id # inc}) /\ (lastp.b = inc \/ lastp.s = inc) /\ ~ById(mkt.live, other).mo)
          => evt'.px = ById(mkt.live, other).px]_vars

\* ------------------------------------------------------------------ C04
Resting(id) == InBook(mkt.live, id)
AcctInv ==
  \A id \in 0..(mkt.nextId - 1) :
    LET a == acct[id + 1] IN
    IF Resting(id)
    THEN a.term = NoTerm /\ ById(mkt.live, id).vol > 0 /\ a.acc = a.filled + ById(mkt.live, id).vol
    ELSE IF a.term = NoTerm THEN a.acc = a.filled             \* executed out
         ELSE a.acc = a.filled + a.tvol                       \* first terminal event closes the identity
LifetimeInv ==
  /\ \A o \in mkt.live : o.ttl # 0 => mkt.clock <= o.t0 + o.ttl          \* gone once the clock has passed t0+ttl
  /\ \A id \in 0..(mkt.nextId - 1) : LET a == acct[id + 1] IN            \* ... and not earlier
        a.term = ExpiredT => (a.ttl # 0 /\ a.tat >= a.t0 + a.ttl + 1 /\ (JumpSizes = {} => a.tat = a.t0 + a.ttl + 1))
IdsInv == /\ Len(acct) = mkt.nextId
          /\ \A o \in mkt.live : o.id < mkt.nextId /\ o.t0 <= mkt.clock
          /\ \A o, p \in mkt.live : o.id = p.id => o = p
\* a fill only ever goes to an order that is resting, not terminal, and inside its lifetime
FillOnlyLive ==
  [][\A id \in 0..(mkt.nextId - 1) :
       acct'[id + 1].filled > acct[id + 1].filled =>
          /\ Resting(id) /\ acct[id + 1].term = NoTerm
          /\ LET o == ById(mkt.live, id) IN o.ttl # 0 => mkt.clock <= o.t0 + o.ttl]_vars
\* an order with a ttl still rests in step t0+ttl unless it was filled or cancelled, and is gone in t0+ttl+1
LeavesExactly ==
  [][evt'.k = "tick" =>
       \A o \in mkt.live : (o \notin mkt'.live) <=> (o.ttl # 0 /\ o.t0 + o.ttl = mkt.clock)]_vars

\* a clock jump removes exactly the orders whose life ended before the new time (and no fill ever reaches them later:
\* FillOnlyLive / LifetimeInv hold across jumps as well)
LeavesAtJump ==
  [][evt'.k = "jump" =>
       \A o \in mkt.live : (o \notin mkt'.live) <=> (o.ttl # 0 /\ o.t0 + o.ttl < mkt'.clock)]_vars
\* ... records nothing for the steps it skips, resets the per-step statistics and leaves the price of a halted market alone
JumpRow ==
  [][evt'.k = "jump" =>
       /\ \A t \in (mkt.clock + 2)..mkt'.clock : mkt'.hist[t] = SkipRow
       /\ mkt'.hist[mkt.clock + 1] = mkt.row
       /\ mkt'.row.eVol = 0 /\ mkt'.row.eTot = 0 /\ mkt'.row.nB = 0 /\ mkt'.row.nS = 0
       /\ mkt'.row.last = mkt.row.last]_vars

\* ------------------------------------------------------------------ C06 (single market)
HistoryImmutable == [][IsPrefix(mkt.hist, mkt'.hist)]_vars
ClockStep == [][\/ mkt'.clock = mkt.clock
                \/ (evt'.k = "tick" /\ mkt'.clock = mkt.clock + 1)
                \/ (evt'.k = "jump" /\ mkt'.clock = mkt.clock + evt'.by /\ evt'.by >= 2)]_vars
HistLen == Len(mkt.hist) = mkt.clock

\* ------------------------------------------------------------------ C08
BookEvent(k) == k \in {"sub", "can", "fill"}
C08Step ==
  [][LET k == evt'.k  r == mkt.row  r2 == mkt'.row  mid2 == MidOf(mkt'.live) IN
     /\ (BookEvent(k) => r2.mid = mid2)                                   \* refreshed at submit / cancel / fill
     /\ (k \in {"tick", "noop", "run"} => r2.mid = r.mid)                 \* carried over otherwise
     /\ ((~mkt'.running /\ k # "run") => r2.mkt = r.mkt)                  \* not running: the price does not move
     /\ ((mkt.running /\ BookEvent(k)) =>
           r2.mkt = IF hx'.lastTrade # NoPx THEN hx'.lastTrade ELSE IF mid2 # NoPx THEN mid2 ELSE r.mkt)
     /\ ((mkt.running /\ k = "tick") =>
           r2.mkt = IF hx.lastTrade # NoPx THEN hx.lastTrade ELSE IF r.mid # NoPx THEN r.mid ELSE r.mkt)
     /\ (k = "run" => r2 = r)]_vars
StatsInv ==
  /\ mkt.row.last = hx.lastTrade
  /\ mkt.row.eVol = hx.vol /\ mkt.row.eTot = hx.tot
  /\ mkt.row.nB = hx.nB /\ mkt.row.nS = hx.nS

\* ------------------------------------------------------------------ C19
C19Step ==
  [][(evt'.k = "sub" /\ ~evt'.mo) =>
       C19ok(evt'.req, Den, evt'.buy, ById(mkt'.live, evt'.id).px)]_vars
=============================================================================
