------------------------------ MODULE TraceClock ------------------------------
(***************************************************************************)
(* C06 at run level: one lock-step clock.  All markets read the same time  *)
(* at every observation point, 0 in the first step, +1 per step for every  *)
(* market together (index markets after their components); each session    *)
(* spans exactly its configured number of steps and starts where the       *)
(* previous one ended.  (History immutability and refusal of future        *)
(* queries are checked per market by TraceBook on the same runs.)          *)
(***************************************************************************)
EXTENDS TraceBase, TLC, Json, IOUtils

VARIABLES tid, l, now, nsteps, nextStart, ticked, sawIdx, started, v
tvars == <<tid, l, now, nsteps, nextStart, ticked, sawIdx, started, v>>

TraceLog_ == ndJsonDeserialize(IOEnv.TRACE_FILE)
N == Len(TraceLog_)
Hd == TraceLog_[tid]
Ev == Hd.ev
F(cur, cond, tag) == Fl(cur, cond, tag, l)
NM == Len(Hd.idx)
AllAt(clocks, t) == \A i \in 1..Len(clocks) : clocks[i] = t

Init == /\ tid \in 1..N /\ l = 1 /\ now = -1 /\ nsteps = 0 /\ nextStart = 0 /\ ticked = {} /\ sawIdx = FALSE
        /\ started = FALSE
        /\ v = [C06 |-> "ok"]

Step ==
  /\ l <= Len(Ev) /\ l' = l + 1 /\ tid' = tid
  /\ LET e == Ev[l] IN
     CASE e.k = "tickAllB" ->
            /\ ticked' = {} /\ sawIdx' = FALSE
            /\ v' = [v EXCEPT !.C06 = F(@, ~AllAt(e.clocks, now), "C06:clock-skew-before-step")]
            /\ UNCHANGED <<now, nsteps, nextStart, started>>
       [] e.k = "tick" ->
            /\ ticked' = ticked \cup {e.m} /\ sawIdx' = (sawIdx \/ e.idx)
            /\ v' = [v EXCEPT !.C06 = F(F(F(@, e.t # now + 1, "C06:clock-step"),
                                          e.m \in ticked, "C06:market-stepped-twice"),
                                          ~e.idx /\ sawIdx, "C06:index-before-component")]
            /\ UNCHANGED <<now, nsteps, nextStart, started>>
       [] e.k = "tickAll" ->
            /\ now' = now + 1
            /\ v' = [v EXCEPT !.C06 = F(F(@, ~AllAt(e.clocks, now + 1), "C06:clock-step"),
                                        Cardinality(ticked) # NM, "C06:market-not-stepped")]
            /\ UNCHANGED <<nsteps, nextStart, ticked, sawIdx, started>>
       [] e.k = "sessB" ->
            /\ nsteps' = 0 /\ nextStart' = nextStart + e.steps
            /\ v' = [v EXCEPT !.C06 = F(F(F(@, e.start # nextStart, "C06:session-start"),
                                          ~AllAt(e.clocks, nextStart), "C06:session-start-clock"),
                                          e.steps # Hd.sess[e.s + 1][1], "C06:session-length")]
            /\ UNCHANGED <<now, ticked, sawIdx, started>>
       [] e.k = "stepB" ->
            /\ nsteps' = nsteps + B2N(e.m = 0) /\ started' = TRUE
            /\ v' = [v EXCEPT !.C06 = F(F(F(@, ~AllAt(e.clocks, now), "C06:clock-skew"),
                                          e.t # now, "C06:clock-skew"),
                                          ~started /\ e.t # 0, "C06:first-step-not-zero")]
            /\ UNCHANGED <<now, nextStart, ticked, sawIdx>>
       [] e.k = "stepE" ->
            /\ v' = [v EXCEPT !.C06 = F(@, ~AllAt(e.clocks, now) \/ e.t # now, "C06:clock-skew")]
            /\ UNCHANGED <<now, nsteps, nextStart, ticked, sawIdx, started>>
       [] e.k = "sessE" ->
            /\ v' = [v EXCEPT !.C06 = F(F(@, nsteps # Hd.sess[e.s + 1][1], "C06:session-span"),
                                        ~AllAt(e.clocks, nextStart), "C06:session-end-clock")]
            /\ UNCHANGED <<now, nsteps, nextStart, ticked, sawIdx, started>>
       [] e.k = "abort" ->
            /\ v' = [v EXCEPT !.C06 = F(@, e.phase = "clock", "C06:run-aborted-in-" \o e.phase \o "-" \o e.exc)]
            /\ UNCHANGED <<now, nsteps, nextStart, ticked, sawIdx, started>>
       [] OTHER -> UNCHANGED <<now, nsteps, nextStart, ticked, sawIdx, started, v>>

Done == l = Len(Ev) + 1
Report == Done => PrintT(<<"VERDICT", tid, TRUE, v>>)
Spec == Init /\ [][Step]_tvars
=============================================================================
