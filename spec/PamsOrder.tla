----------------------------- MODULE PamsOrder -----------------------------
(***************************************************************************)
(* Orders of PAMS (pams/order.py) as records, and the priority relation    *)
(* that Order.__lt__/__gt__ implement (Order._gt_lt, order.py:179-231).    *)
(*                                                                         *)
(* Conventions used by every module of this specification:                 *)
(*   - prices are integers in "units": one tick = DEN units (DEN is a      *)
(*     power of two chosen per configuration), so that mid prices and      *)
(*     dyadic off-grid requests are exact integers;                        *)
(*   - NoPx = -2^30 stands for Python's None (market orders have no price);*)
(*     0 and negative numbers are prices (Order only warns about them): a  *)
(*     bid below one tick is accepted at 0;                                *)
(*   - ttl = 0 stands for ttl=None (never expires);                        *)
(*   - an accepted order is the record                                     *)
(*       [id, ag, buy, mo, px, vol, t0, ttl]                               *)
(*     id  order_id given by the market, ag owner agent, buy side,         *)
(*     mo  TRUE for MARKET_ORDER, px accepted price (NoPx if mo),          *)
(*     vol remaining volume, t0 placed_at, ttl time-to-live.               *)
(***************************************************************************)
EXTENDS Naturals, Integers, Sequences, FiniteSets, SequencesExt, FiniteSetsExt, Functions

NoPx == -1073741824
BadPx == NoPx - 1        \* a recorded price that is not on the unit grid at all (never used in arithmetic)

MkOrder(id, ag, buy, mo, px, vol, t0, ttl) ==
  [id |-> id, ag |-> ag, buy |-> buy, mo |-> mo, px |-> IF mo THEN NoPx ELSE px,
   vol |-> vol, t0 |-> t0, ttl |-> ttl]

\* earlier acceptance time, then lower id (Order._gt_lt._compare_placed_at)
TimeBefore(a, b) == a.t0 < b.t0 \/ (a.t0 = b.t0 /\ a.id < b.id)

\* a has priority over b; both on the same side (python: a < b)
Before(a, b) ==
  IF a.mo /\ b.mo THEN TimeBefore(a, b)
  ELSE IF a.mo THEN TRUE
  ELSE IF b.mo THEN FALSE
  ELSE IF a.px # b.px THEN (IF a.buy THEN a.px > b.px ELSE a.px < b.px)
  ELSE TimeBefore(a, b)

\* python: a == b  (order.py:168-177; identity on id, price, placed_at, side, kind)
SameOrder(a, b) == a.id = b.id /\ a.px = b.px /\ a.t0 = b.t0 /\ a.buy = b.buy /\ a.mo = b.mo

\* the six rich comparisons as the model predicts them (used by the table replay of C02)
CmpLt(a, b) == Before(a, b)
CmpGt(a, b) == Before(b, a)
CmpEq(a, b) == SameOrder(a, b)
CmpNe(a, b) == ~SameOrder(a, b)
CmpLe(a, b) == SameOrder(a, b) \/ Before(a, b)
CmpGe(a, b) == SameOrder(a, b) \/ Before(b, a)

Side(S, isBuy) == {o \in S : o.buy = isBuy}
Sorted(S) == SetToSortSeq(S, Before)          \* priority order, best first
Min2(a, b) == IF a < b THEN a ELSE b
Max2(a, b) == IF a > b THEN a ELSE b

(***************************************************************************)
(* Lemmas: on orders of one side with pairwise distinct ids, Before is a   *)
(* strict total order that agrees with the documented ranking.  TLC        *)
(* evaluates them over a finite universe (MC_PamsOrder).                   *)
(***************************************************************************)
Irreflexive(U) == \A a \in U : ~Before(a, a)
Asymmetric(U)  == \A a, b \in U : Before(a, b) => ~Before(b, a)
Transitive(U)  == \A a, b, c \in U :
                    (a.buy = b.buy /\ b.buy = c.buy /\ a.id # b.id /\ b.id # c.id /\ a.id # c.id
                     /\ Before(a, b) /\ Before(b, c)) => Before(a, c)
Total(U)       == \A a, b \in U : (a.buy = b.buy /\ a.id # b.id) => (Before(a, b) \/ Before(b, a))
Ranking(U) == \A a, b \in U : (a.buy = b.buy /\ a.id # b.id) =>
   /\ (a.mo /\ ~b.mo => Before(a, b))                                         \* market orders first
   /\ (~a.mo /\ ~b.mo /\ a.buy /\ a.px > b.px => Before(a, b))                \* higher bid
   /\ (~a.mo /\ ~b.mo /\ ~a.buy /\ a.px < b.px => Before(a, b))               \* lower ask
   /\ ((a.mo = b.mo) /\ a.px = b.px /\ a.t0 < b.t0 => Before(a, b))           \* earlier acceptance
   /\ ((a.mo = b.mo) /\ a.px = b.px /\ a.t0 = b.t0 /\ a.id < b.id => Before(a, b))  \* lower id
=============================================================================
