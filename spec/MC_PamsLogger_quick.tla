---- MODULE MC_PamsLogger_quick ----
EXTENDS PamsLogger
cKinds == {"order", "execution", "market_step_end"}
====
