--------------------------- MODULE PamsLoggerOps ---------------------------
(* Operators shared by the design model of the logger (PamsLogger) and its trace specification (TraceLogger).
   A log record is <<id, kind>>; kind is one of the ten record classes of pams/logs/base.py; the handler a record
   must reach carries the same name (process_order_log for OrderLog, ...). *)
EXTENDS Naturals, Integers, Sequences, FiniteSets, SequencesExt

LogKinds == {"order", "cancel", "expiration", "execution", "simulation_begin", "simulation_end",
             "session_begin", "session_end", "market_step_begin", "market_step_end"}
Count(s, x) == Cardinality({i \in 1..Len(s) : s[i] = x})
NoDup(s) == \A i, j \in 1..Len(s) : i # j => s[i] # s[j]
=============================================================================
