SPECIFICATION Spec
CONSTANTS
  NN = 1
  NH = 1
  NM = 1
  Sess <- cSess
  Den = 2
  P0 = 4
  Prices <- cPrices
  Vols = {1, 2}
  TTLs = {0, 1}
  MaxOrders = 3
INVARIANT Conservation
INVARIANT BooksOk
INVARIANT Lifetimes
INVARIANT NoFillWithoutExec
INVARIANT RunningFollowsSession
INVARIANT LockStep
INVARIANT HistLen
INVARIANT RowsSane
PROPERTY RoundFollows
CHECK_DEADLOCK FALSE
