------------------------------ MODULE TraceBase ------------------------------
(* Helpers shared by the run-level trace specifications (total, sticky verdicts; bags as sequences). *)
EXTENDS Naturals, Integers, Sequences, FiniteSets, SequencesExt, FiniteSetsExt, Functions

\* first failure sticks; n = event number
Fl(cur, cond, tag, n) == IF cur # "ok" THEN cur ELSE IF cond THEN tag \o "@" \o ToString(n) ELSE "ok"

\* index of the first element of seq satisfying P, 0 if none
FirstIdx(seq, P(_)) == LET I == {i \in 1..Len(seq) : P(seq[i])} IN IF I = {} THEN 0 ELSE CHOOSE i \in I : \A j \in I : i <= j
SumSeq(seq) == FoldLeft(LAMBDA a, b : a + b, 0, seq)
B2N(b) == IF b THEN 1 ELSE 0
=============================================================================
