SPECIFICATION Spec
CONSTANTS
  Den = 2
  P0 = 4
  ReqPrices <- cReq
  Vols = {1, 2, 3, 5}
  TTLs = {0, 1, 2}
  MaxOrders = 12
  MaxClock = 6
  Halts = TRUE
INVARIANT MatchInv
INVARIANT NeverRaised
INVARIANT AcctInv
INVARIANT StatsInv
CHECK_DEADLOCK FALSE
