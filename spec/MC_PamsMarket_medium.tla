---- MODULE MC_PamsMarket_medium ----
EXTENDS PamsMarket
cReq == {2, 3, 4}
====
