------------------------------ MODULE TraceSched ------------------------------
(***************************************************************************)
(* C09 (session rules) on recorded runs.  The scheduler state kept here is *)
(* the property-level one: who was consulted in this step, how many        *)
(* produced orders, which normal batch is being handled, who was consulted *)
(* in the high-frequency round that follows it.  The design-level model of *)
(* the same rules is PamsRunner (explored exhaustively by TLC).            *)
(* Sessions come from the real Session objects after setup:                *)
(*   sess[i] = <<steps, placement, execution, maxNormal, maxHF, rate, start>> *)
(*   rate: 0 = never (0.0), 1 = sometimes, 2 = always (1.0)                *)
(***************************************************************************)
EXTENDS TraceBase, TLC, Json, IOUtils

VARIABLES tid, l, s, cons, nNE, handled, cur, hcons, hNE, collecting, v
tvars == <<tid, l, s, cons, nNE, handled, cur, hcons, hNE, collecting, v>>

TraceLog == ndJsonDeserialize(IOEnv.TRACE_FILE)
N == Len(TraceLog)
Hd == TraceLog[tid]
Ev == Hd.ev
F(cur_, cond, tag) == Fl(cur_, cond, tag, l)

Agents == 0..(Len(Hd.hft) - 1)
HFT == {a \in Agents : Hd.hft[a + 1]}
Normal == Agents \ HFT
S == Hd.sess[s + 1]
Place == S[2]   Exec == S[3]   MaxN == S[4]   MaxH == S[5]   Rate == S[6]

Init == /\ tid \in 1..N /\ l = 1 /\ s = 0
        /\ cons = {} /\ nNE = 0 /\ handled = 0 /\ cur = -1 /\ hcons = {} /\ hNE = 0 /\ collecting = FALSE
        /\ v = [C09 |-> "ok"]

\* obligation of the high-frequency round that followed the batch handled last: with rate 1 every HFT agent
\* is consulted until maxHighFrequencyOrders of them have produced orders
HftRoundIncomplete == handled > 0 /\ HFT # {} /\ hNE < MaxH /\ hcons # HFT
                      /\ (Rate = 2 \/ (Rate = 1 /\ hcons # {}))    \* the draw is per BATCH: a round that has begun is completed
\* the collection phase consults every normal agent unless the cap stopped it
CollectIncomplete == collecting /\ Place /\ nNE < MaxN /\ cons # Normal

Step ==
  /\ l <= Len(Ev) /\ l' = l + 1 /\ tid' = tid
  /\ LET e == Ev[l] IN
     CASE e.k = "sessB" ->
            /\ s' = e.s /\ UNCHANGED <<cons, nNE, handled, cur, hcons, hNE, collecting, v>>
       [] e.k = "stepB" /\ e.m = 0 ->
            /\ cons' = {} /\ nNE' = 0 /\ handled' = 0 /\ cur' = -1 /\ hcons' = {} /\ hNE' = 0 /\ collecting' = TRUE
            /\ UNCHANGED <<s, v>>
       [] e.k = "consult" /\ ~e.hft ->
            /\ cons' = cons \cup {e.a}
            /\ v' = [v EXCEPT !.C09 = F(F(F(@, ~Place, "C09:consulted-without-placement"),
                                          e.a \in cons, "C09:consulted-twice"),
                                          nNE >= MaxN, "C09:cap-normal")]
            /\ UNCHANGED <<s, nNE, handled, cur, hcons, hNE, collecting>>
       [] e.k = "ret" /\ ~e.hft ->
            /\ nNE' = nNE + B2N(Len(e.batch) > 0)
            /\ UNCHANGED <<s, cons, handled, cur, hcons, hNE, collecting, v>>
       [] e.k = "consult" /\ e.hft ->
            /\ hcons' = hcons \cup {e.a}
            /\ v' = [v EXCEPT !.C09 = F(F(F(F(F(@, ~Place, "C09:consulted-without-placement"),
                                              Rate = 0, "C09:hft-rate0"),
                                              handled = 0, "C09:hft-before-batch"),
                                              e.a \in hcons, "C09:consulted-twice-hft"),
                                              hNE >= MaxH, "C09:cap-hft")]
            /\ UNCHANGED <<s, cons, nNE, handled, cur, hNE, collecting>>
       [] e.k = "ret" /\ e.hft ->
            /\ hNE' = hNE + B2N(Len(e.batch) > 0)
            /\ UNCHANGED <<s, cons, nNE, handled, cur, hcons, collecting, v>>
       [] e.k \in {"acc", "canc"} ->
            IF e.a \in Normal /\ e.a # cur
            THEN \* a new normal batch starts: the previous one must have had its high-frequency round
                 /\ cur' = e.a /\ handled' = handled + 1 /\ hcons' = {} /\ hNE' = 0 /\ collecting' = FALSE
                 /\ v' = [v EXCEPT !.C09 = F(F(F(F(@, ~Place, "C09:accepted-without-placement"),
                                                  CollectIncomplete, "C09:not-all-consulted"),
                                                  HftRoundIncomplete, "C09:hft-rate1"),
                                                  e.a \notin cons, "C09:accepted-from-unconsulted-agent")]
                 /\ UNCHANGED <<s, cons, nNE>>
            ELSE /\ v' = [v EXCEPT !.C09 = F(@, ~Place, "C09:accepted-without-placement")]
                 /\ UNCHANGED <<s, cons, nNE, handled, cur, hcons, hNE, collecting>>
       [] e.k = "round" ->
            /\ v' = [v EXCEPT !.C09 = F(@, Len(e.fills) > 0 /\ ~Exec, "C09:fill-without-execution")]
            /\ UNCHANGED <<s, cons, nNE, handled, cur, hcons, hNE, collecting>>
       [] e.k = "stepE" /\ e.m = 0 ->
            /\ v' = [v EXCEPT !.C09 = F(F(F(@, CollectIncomplete, "C09:not-all-consulted"),
                                        HftRoundIncomplete, "C09:hft-rate1"),
                                        \* every batch a normal agent produced reaches the markets before the step ends
                                        Place /\ handled # nNE, "C09:produced-batch-never-handled")]
            /\ collecting' = FALSE /\ handled' = 0
            /\ UNCHANGED <<s, cons, nNE, cur, hcons, hNE>>
       [] e.k = "abort" ->
            /\ v' = [v EXCEPT !.C09 = F(@, e.phase = "sched" \/ e.phase = "other", "C09:run-aborted-in-" \o e.phase \o "-" \o e.exc)]
            /\ UNCHANGED <<s, cons, nNE, handled, cur, hcons, hNE, collecting>>
       [] OTHER -> UNCHANGED <<s, cons, nNE, handled, cur, hcons, hNE, collecting, v>>

Done == l = Len(Ev) + 1
Report == Done => PrintT(<<"VERDICT", tid, TRUE, v>>)
Spec == Init /\ [][Step]_tvars
=============================================================================
