----------------------------- MODULE TableConfig -----------------------------
(* Lemmas of Extend over EVERY inheritance graph on three names and two keys (chains, self / 2 / 3-cycles,
   missing parents, all subsets of keys): one state per (graph, start node, excluded keys). *)
EXTENDS PamsConfig, TLC
Names == <<"a", "b", "c">>
Exts == {"", "a", "b", "c", "zz"}
KeySets == SUBSET {"k1", "k2"}
VARIABLES ea, eb, ec, ka, kb, kc, start, excl
vars == <<ea, eb, ec, ka, kb, kc, start, excl>>
Init == /\ ea \in Exts /\ eb \in Exts /\ ec \in Exts /\ ka \in KeySets /\ kb \in KeySets /\ kc \in KeySets
        /\ start \in {"a", "b", "c"} /\ excl \in {{}, {"k1"}, {"extends"}}
Next == UNCHANGED vars
Spec == Init /\ [][Next]_vars
Node(n, e, ks) == [name |-> n, ext |-> e, keys |-> SetToSeq({<<k, n>> : k \in ks})]
G == <<Node("a", ea, ka), Node("b", eb, kb), Node("c", ec, kc)>>
R == Extend(G, start, excl)
Own == KeysOf(G[NodeIdx(G, start)])
Lemmas ==
  /\ R.st \in {"ok", "missing", "loop"}                                  \* always terminates with a verdict
  /\ (R.st = "ok" => Own \subseteq R.kv)                                 \* own keys win
  /\ (R.st = "ok" => \A p \in R.kv : \A q \in R.kv : p[1] = q[1] => p = q)            \* one value per key
  /\ (R.st = "ok" => \A p \in R.kv : p \in Own \/ p[1] \notin excl)      \* excluded keys are never inherited
  /\ (R.st = "ok" => \A p \in R.kv : \E n \in {"a", "b", "c"} : p[2] = n) \* every value comes from some node
  /\ (G[NodeIdx(G, start)].ext = start => R.st = "loop")                 \* a self-cycle is reported
=============================================================================
