----------------------------- MODULE TableAgents -----------------------------
(* Lemmas of the agents' decision rules over a grid (one state per case). *)
EXTENDS PamsAgents, TLC
VARIABLES w, af, a, ap, k, tr, tw
vars == <<w, af, a, ap, k, tr, tw>>
Ws == {<<1, 0, 0>>, <<0, 1, 0>>, <<0, 0, 1>>, <<1, 1, 1>>, <<2, 1, 0>>, <<1, 0, 3>>, <<0, 2, 1>>, <<3, 1, 2>>}
Init == w \in Ws /\ af \in -1..1 /\ a \in -1..1 /\ ap \in -1..1 /\ k \in -2..2 /\ tr \in 1..3 /\ tw \in 1..3
Next == UNCHANGED vars
Spec == Init /\ [][Next]_vars
D == FcnDirection(w[1], w[2], w[3], af, a, ap, k, tr, tw)
FcnLemmas ==
  /\ D \in {-1, 0, 1}
  \* mirror image: swapping up and down flips the decision
  /\ FcnDirection(w[1], w[2], w[3], -af, -a, -ap, -k, tr, tw) = -D
  \* only fundamentalists: buy iff the fundamental is above the market price
  /\ (w[2] = 0 /\ w[3] = 0 => D = Sign(af - a))
  \* only chartists: follow the recent move
  /\ (w[1] = 0 /\ w[3] = 0 => D = Sign(a - ap))
  \* only noise: the draw decides
  /\ (w[1] = 0 /\ w[2] = 0 => D = Sign(k))
MmLemmas ==
  LET bests == << <<TRUE, (a + 3) * 1024, 0>>, <<tr > 1, (ap + 5) * 1024, (af + 9) * 1024>> >>
      q == MmQuotes(bests, 7 * 1024, (k + 3) * 1024, 1, 4) IN
  /\ q[1] <= q[2]                                                     \* bid never above ask
  /\ q[1] + q[2] = 2 * 2 * 4 * MmBase2(bests, 7 * 1024)               \* symmetric around the base price
  /\ q[2] - q[1] = 4 * (k + 3) * 1024                                 \* separated by fundamental x spread (x 4 sd / sd)
ArbLemmas ==
  LET ipx == (a + 5) * 1024  ival == (af + 5) * 1024  thr == (tw - 1) * 512 IN
  /\ ArbDirection(ipx, ival, thr, FALSE) = 0
  /\ (ArbDirection(ipx, ival, thr, TRUE) # 0 => (IF ipx > ival THEN ipx - ival ELSE ival - ipx) > thr)
  /\ ArbDirection(ival, ipx, thr, TRUE) = -ArbDirection(ipx, ival, thr, TRUE)
=============================================================================
