----------------------------- MODULE TraceEvents -----------------------------
(***************************************************************************)
(* C14 C15 C16 C17 on recorded runs with the BUILT-IN events and index     *)
(* markets, in exact configurations (zero-volatility fundamentals, dyadic  *)
(* rates, power-of-two share totals).  Expected event parameters come from *)
(* the CONFIGURATION (harness/drive_events.header_from_cfg), observations  *)
(* from the probes.  "Fine" units: 1/1024 tick (fundamentals, market       *)
(* prices, index values); order prices are in units of 1/2 tick.           *)
(*                                                                         *)
(*  fs[i] = <<market, first step, length, num, dnm>>   fundamental shocks  *)
(*  ms[i] = <<market, step, num, dnm, volume, ttl>>    order-mistake shocks*)
(*  pl[i] = <<targets, num, dnm>>                      price limit rules   *)
(*  hl[i] = <<targets, num, dnm, L>>                   trading halt rules  *)
(*  (rate = num / dnm, only ENABLED events are listed: disabled ones must  *)
(*   have no effect at all)                                                *)
(***************************************************************************)
EXTENDS TraceBase, PamsEvents, TLC, Json, IOUtils

VARIABLES tid, l, now, cs, F, fired, reqs, cnt, hs, accSeen, early, v
tvars == <<tid, l, now, cs, F, fired, reqs, cnt, hs, accSeen, early, v>>

TraceLog_ == ndJsonDeserialize(IOEnv.TRACE_FILE)
N == Len(TraceLog_)
Hd == TraceLog_[tid]
Ev == Hd.ev
F_(cur, cond, tag) == Fl(cur, cond, tag, l)
PU == FDEN \div 2                       \* fine units per order-price unit
NM == Len(Hd.idx)
IsIdx(m) == Hd.idx[m + 1]
Sx == Hd.sess[cs + 1]
Abs(x) == AbsV(x)
InSeq(x, seq) == \E k \in 1..Len(seq) : seq[k] = x

NoHalt == [at |-> -1, sess |-> -1, L |-> 0]
Init == /\ tid \in 1..N /\ l = 1 /\ now = -1 /\ cs = 0
        /\ F = Hd.p0s /\ fired = {} /\ reqs = <<>> /\ accSeen = {} /\ early = {}
        /\ cnt = [r \in 1..Len(Hd.hl) |-> 0]
        /\ hs = [m \in 1..NM |-> NoHalt]
        /\ v = [C03 |-> "ok", C14 |-> "ok", C15 |-> "ok", C16 |-> "ok", C17 |-> "ok", C19 |-> "ok"]

\* ------------------------------------------------------------------ helpers
ShocksAt(m, t) == {i \in 1..Len(Hd.fs) : Hd.fs[i][1] = m /\ Hd.fs[i][2] <= t /\ t < Hd.fs[i][2] + Hd.fs[i][3]}
ShockedEver(m) == \E i \in 1..Len(Hd.fs) : Hd.fs[i][1] = m
RECURSIVE ApplyShocks(_, _)
ApplyShocks(x, S) == IF S = {} THEN x
                     ELSE LET i == CHOOSE j \in S : TRUE  h == Hd.fs[i] IN
                          ApplyShocks(Shock(x, h[4], h[5]), S \ {i})

Halted(m, t, s) == hs[m + 1].at >= 0 /\ hs[m + 1].sess = s /\ t <= hs[m + 1].at + hs[m + 1].L
ExpRun(m, t, s) == Hd.sess[s + 1][3] /\ ~Halted(m, t, s)
AnyHalted(t, s) == \E m \in 0..(NM - 1) : Halted(m, t, s)

PlRules(m) == {i \in 1..Len(Hd.pl) : InSeq(m, Hd.pl[i][1])}
\* every price limit rule that targets the market clips in turn (registration order)
RECURSIVE ClipAll(_, _, _)
ClipAll(req, p0, S) == IF S = {} THEN req
                       ELSE LET i == CHOOSE j \in S : \A k \in S : j <= k IN
                            ClipAll(Clip(req, p0, Hd.pl[i][2], Hd.pl[i][3]), p0, S \ {i})
InBandAll(px, p0, S) == \A i \in S : InBandWide(px, p0, Hd.pl[i][2], Hd.pl[i][3])

ReqIdx(obj) == FirstIdx(reqs, LAMBDA r : r[1] = obj)

\* index value / fundamental: cross-multiplied weighted average over the components
ISum(i, vals) == WSum(Hd.comps[i + 1], Hd.w, vals)
ITot(i) == WTot(Hd.comps[i + 1], Hd.w)
AllKnown(i, vals) == \A k \in 1..Len(Hd.comps[i + 1]) : vals[Hd.comps[i + 1][k] + 1] >= 0
\* idxh[k] = <<index market, time, index value at that time, side condition, market prices of all markets at that time>>
IndexBad(e) ==
  \/ \E i \in 0..(NM - 1) :
        IsIdx(i) /\ (~e.iok[i + 1] \/ (e.idxv[i + 1] >= 0 /\ AllKnown(i, e.mkts) /\ e.idxv[i + 1] * ITot(i) # ISum(i, e.mkts)))
  \/ \E k \in 1..Len(e.idxh) :
        LET h == e.idxh[k] IN ~h[4] \/ (h[3] >= 0 /\ AllKnown(h[1], h[5]) /\ h[3] * ITot(h[1]) # ISum(h[1], h[5]))

\* ------------------------------------------------------------------ steps
Unch == UNCHANGED <<now, cs, F, fired, reqs, cnt, hs, accSeen, early>>

TickAll(e) ==
  LET t1 == now + 1
      badFund == \E m \in 0..(NM - 1) : ~IsIdx(m) /\ e.funds[m + 1] # F[m + 1]
      badIdx == \E i \in 0..(NM - 1) : IsIdx(i) /\
                   (~e.fok[i + 1] \/ (e.funds[i + 1] >= 0 /\ AllKnown(i, e.funds) /\ e.funds[i + 1] * ITot(i) # ISum(i, e.funds)))
      missed == \E i \in 1..Len(Hd.ms) : i \notin fired /\ Hd.ms[i][2] = now /\ Hd.ms[i][1] \in accSeen IN
  /\ now' = t1 /\ accSeen' = {}
  /\ F' = [k \in 1..NM |-> IF IsIdx(k - 1) THEN e.funds[k] ELSE F[k]]
  /\ v' = [v EXCEPT !.C14 = F_(F_(@, now >= 0 /\ badFund, "C14:fundamental-moved-at-clock-step"),
                               missed, "C14:mistake-missed"),
                    !.C17 = F_(@, badIdx, "C17:fundamental-at-tick")]
  /\ UNCHANGED <<cs, fired, reqs, cnt, hs, early>>

StepB(e) ==
  LET m == e.m
      S == ShocksAt(m, e.t)
      exp == IF IsIdx(m) THEN F[m + 1] ELSE ApplyShocks(F[m + 1], S)
      obs == e.funds[m + 1]
      runObs == e.runs[m + 1]
      runExp == ExpRun(m, e.t, e.s) IN
  /\ F' = [F EXCEPT ![m + 1] = exp]
  /\ cs' = e.s
  /\ v' = [v EXCEPT
            !.C14 = F_(F_(F_(@, ~IsIdx(m) /\ S = {} /\ obs # exp /\ ~ShockedEver(m), "C14:wrong-market"),
                          ~IsIdx(m) /\ S = {} /\ obs # exp, "C14:wrong-time"),
                          ~IsIdx(m) /\ S # {} /\ obs # exp, "C14:magnitude"),
            !.C17 = F_(@, IndexBad(e), "C17:index"),
            !.C16 = F_(F_(F_(F_(@, runObs /\ ~Hd.sess[e.s + 1][3], "C16:running-in-session-without-execution"),
                            runObs /\ ~runExp, "C16:resumed-early-or-not-halted"),
                            ~runObs /\ runExp /\ hs[m + 1].at >= 0 /\ hs[m + 1].sess = e.s, "C16:resumed-late"),
                            ~runObs /\ runExp, "C16:stopped-without-halt")]
  /\ UNCHANGED <<now, fired, reqs, cnt, hs, accSeen, early>>

StepE(e) ==
  /\ v' = [v EXCEPT
            !.C17 = F_(@, IndexBad(e), "C17:index"),
            \* (how matching is suppressed during a halt - the session's switch in this implementation - is not part of the
            \*  property: only Market.is_running and the fills are judged)
            !.C16 = F_(@, \E m \in 0..(NM - 1) : e.runs[m + 1] # ExpRun(m, e.t, e.s), "C16:running-flags-at-step-end")]
  /\ Unch

Ret(e) ==
  /\ reqs' = reqs \o [k \in 1..Len(SelectSeq(e.batch, LAMBDA b : b[1] = "o")) |->
                        LET b == SelectSeq(e.batch, LAMBDA x : x[1] = "o")[k] IN <<b[8], b[2], b[3], b[4], b[5], b[6], b[7]>>]
  /\ UNCHANGED <<now, cs, F, fired, cnt, hs, accSeen, early, v>>

Acc(e) ==
  LET m == e.m
      ri == ReqIdx(e.obj)
      r == IF ri = 0 THEN <<e.obj, m, e.buy, e.mo, e.px, e.vol, e.ttl>> ELSE reqs[ri]
      cand == {i \in 1..Len(Hd.ms) : i \notin fired /\ Hd.ms[i][1] = m /\ Hd.ms[i][2] = e.t}
      isMist == cand # {}
      \* several shocks with the same target and time all rewrite that first order; the last registered one wins
      mi == IF isMist THEN CHOOSE i \in cand : \A j \in cand : i >= j ELSE 0
      mk == IF isMist THEN Hd.ms[mi] ELSE <<>>
      rules == PlRules(m)
      p0 == e.p0
      pxF == IF e.mo \/ e.px < -100000000 THEN 0 ELSE e.px * PU      \* (no price / not on the unit grid: never multiplied)
      \* expected accepted price (fine) of an ordinary limit order: clip (if target), then tick rounding
      expPx == RoundFine(ClipAll(r[5] * PU, p0, rules), r[3])
      inside == \A i \in rules : Inside(r[5] * PU, p0, Hd.pl[i][2], Hd.pl[i][3])
      sameShape == e.buy = r[3] /\ e.mo = r[4] /\ e.vol = r[6] /\ e.ttl = r[7] IN
  /\ fired' = fired \cup cand
  /\ reqs' = IF ri = 0 THEN reqs ELSE RemoveAt(reqs, ri)
  /\ accSeen' = accSeen \cup {m}
  \* orders accepted during step 0 were clipped against a reference price that was still moving
  /\ early' = IF e.t = 0 THEN early \cup {<<m, e.id>>} ELSE early
  /\ v' =
      IF isMist
      THEN LET expM == MistakePrice(e.mp, mk[3], mk[4]) IN
           [v EXCEPT
              !.C14 = F_(@, e.buy # (mk[3] > 0) \/ e.mo \/ e.vol # mk[5] \/ e.ttl # mk[6] \/ (e.mp >= 0 /\ pxF # expM),
                         "C14:mistake-fields"),
              !.C15 = F_(@, rules # {} /\ ~InBandAll(pxF, p0, rules), "C15:outside-band-after-mistake-override"),
              \* the order a mistake shock writes is a limit order like any other: market price x (1 + rate) = a / b is moved onto
              \* the grid in the direction of ITS side (a buy down, a sell up), by less than one tick
              !.C19 = LET a == e.mp * (mk[4] + mk[3])  b == mk[4]  buyM == mk[3] > 0 IN
                      F_(@, e.mp >= 0 /\ ~e.mo /\ e.px > -100000000 /\
                            (\/ pxF % FDEN # 0
                             \/ (buyM /\ (pxF * b > a \/ a - pxF * b >= FDEN * b))
                             \/ (~buyM /\ (pxF * b < a \/ pxF * b - a >= FDEN * b))),
                         "C19:order-written-by-a-hook-rounded-against-its-side")]
      ELSE [v EXCEPT
              !.C14 = F_(@, ~sameShape \/ (rules = {} /\ Len(Hd.pl) = 0 /\ ~e.mo /\ pxF # expPx),
                         IF Len(Hd.ms) > 0 THEN "C14:mistake-target" ELSE "C14:order-altered-without-cause"),
              !.C15 = F_(F_(F_(F_(@, rules = {} /\ Len(Hd.pl) > 0 /\ sameShape /\ ~e.mo /\ pxF # expPx, "C15:non-target-changed"),
                                rules # {} /\ e.mo # r[4], "C15:market-order-changed"),
                                rules # {} /\ ~e.mo /\ sameShape /\ inside /\ pxF # expPx, "C15:inside-changed"),
                                rules # {} /\ ~e.mo /\ sameShape /\ pxF # expPx,
                                IF InBandAll(pxF, p0, rules) THEN "C15:clipped-to-wrong-price" ELSE "C15:outside-band"),
              !.C16 = F_(@, e.run # ExpRun(m, e.t, cs), "C16:running-flag-at-acceptance")]
  /\ UNCHANGED <<now, cs, F, cnt, hs>>

\* after-execution hooks of the halt rules, rule by rule, for the (common) price of the round
\* p0 = the market's price at time 0 as the accessor returns it when the hooks run (during step 0 it still moves)
RECURSIVE HaltFold(_, _, _, _, _, _, _)
HaltFold(k, m, t, px, c, h, p0) ==
  IF k > Len(Hd.hl) THEN <<c, h>>
  ELSE LET r == Hd.hl[k]
           running == ~(h[m + 1].at >= 0 /\ h[m + 1].sess = cs /\ t <= h[m + 1].at + h[m + 1].L)
           hit == InSeq(m, r[1]) /\ running /\ HaltHit(p0, px, r[2], r[3], c[k]) IN
       IF hit THEN HaltFold(k + 1, m, t, px, [c EXCEPT ![k] = @ + 1], [h EXCEPT ![m + 1] = [at |-> t, sess |-> cs, L |-> r[4]]], p0)
       ELSE HaltFold(k + 1, m, t, px, c, h, p0)

Round(e) ==
  LET m == e.m
      rules == PlRules(m)
      nf == Len(e.fills)
      px == IF nf = 0 \/ e.fills[nf][3] < -100000000 THEN 0 ELSE e.fills[nf][3] * PU
      res == IF nf = 0 \/ ~ExpRun(m, e.t, cs) THEN <<cnt, hs>> ELSE HaltFold(1, m, e.t, px, cnt, hs, e.p0) IN
  /\ cnt' = res[1] /\ hs' = res[2]
  /\ v' = [v EXCEPT
            \* (a round's common price may be set by an order accepted during step 0, clipped against a reference
            \*  price that was still moving: such rounds are not judged)
            !.C15 = F_(@, rules # {} /\ e.t > 0
                          /\ (\A k \in 1..nf : <<m, e.fills[k][1]>> \notin early /\ <<m, e.fills[k][2]>> \notin early)
                          /\ (\E k \in 1..nf : e.fills[k][3] > -100000000 /\ ~InBandAll(e.fills[k][3] * PU, e.p0, rules)), "C15:trade-outside-band"),
            !.C16 = F_(@, nf > 0 /\ ~ExpRun(m, e.t, cs), "C16:fill-on-market-that-must-be-stopped")]
  /\ UNCHANGED <<now, cs, F, fired, reqs, accSeen, early>>

Abort(e) ==
  LET nonTargetPending == Len(Hd.pl) > 0 /\ \E k \in 1..Len(reqs) : PlRules(reqs[k][2]) = {} IN
  /\ v' = [v EXCEPT
            !.C15 = F_(@, e.phase \in {"hooks", "accept"} /\ nonTargetPending, "C15:non-target-rejected-" \o e.exc),
            !.C16 = F_(@, e.phase = "match" /\ Len(Hd.hl) > 0, "C16:run-aborted-market-not-running-" \o e.exc),
            \* a matching round inside a run never fails (C03): the runner starts none on a market that is stopped
            !.C03 = F_(@, e.phase = "match", "C03:round-raised-inside-a-run-" \o e.exc),
            !.C14 = F_(@, e.phase = "hooks" /\ Len(Hd.pl) = 0 /\ (Len(Hd.fs) > 0 \/ Len(Hd.ms) > 0), "C14:run-aborted-in-hooks-" \o e.exc),
            !.C17 = F_(F_(@, e.phase = "clock" /\ \E i \in 0..(NM - 1) : IsIdx(i), "C17:run-aborted-in-clock-step-" \o e.exc),
                          \* an index over distinct components that all declare outstanding shares (0 is a declaration) is set up
                          e.phase = "setup" /\ Hd.neg = "" /\ (\E i \in 0..(NM - 1) : IsIdx(i)), "C17:valid-index-configuration-refused-" \o e.exc)]
  /\ Unch

Step ==
  /\ l <= Len(Ev) /\ l' = l + 1 /\ tid' = tid
  /\ LET e == Ev[l] IN
     CASE e.k = "tickAll" -> TickAll(e)
       [] e.k = "stepB" -> StepB(e)
       [] e.k = "stepE" -> StepE(e)
       [] e.k = "ret" -> Ret(e)
       [] e.k = "acc" -> Acc(e)
       [] e.k = "round" -> Round(e)
       [] e.k = "abort" -> Abort(e)
       [] e.k = "tick" ->        \* (dok: an index asked without a time, while its components are one step ahead, answered for its own clock)
            /\ v' = [v EXCEPT !.C17 = F_(@, e.dok = FALSE, "C17:index-without-a-time-is-not-the-index-at-its-clock")] /\ Unch
       [] e.k = "dupreg" ->      \* a component registered a second time: refused (the index values that follow are judged as ever)
            /\ v' = [v EXCEPT !.C17 = F_(@, ~e.refused, "C17:duplicate-component-accepted")] /\ Unch
       [] OTHER -> UNCHANGED <<now, cs, F, fired, reqs, cnt, hs, accSeen, early, v>>

Done == l = Len(Ev) + 1
\* negative configurations (C17: components must be distinct markets that declare outstanding shares): setup must refuse them
Final == IF Hd.neg = "" THEN v
         ELSE LET refused == \E i \in 1..Len(Ev) : Ev[i].k = "abort" /\ Ev[i].phase = "setup"
                  started == \E i \in 1..Len(Ev) : Ev[i].k = "init" IN
              [v EXCEPT !.C17 = IF @ # "ok" THEN @ ELSE IF started \/ ~refused THEN "C17:validation-" \o Hd.neg \o "-accepted@0" ELSE "ok"]
Report == Done => PrintT(<<"VERDICT", tid, TRUE, Final>>)
Spec == Init /\ [][Step]_tvars
=============================================================================
