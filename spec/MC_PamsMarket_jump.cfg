SPECIFICATION Spec
CONSTANTS
  Den = 2
  P0 = 4
  ReqPrices <- cReq
  Vols = {1, 2}
  TTLs = {0, 1}
  MaxOrders = 2
  MaxClock = 4
  Halts = TRUE
  JumpSizes <- cJumps
INVARIANT MatchInv
INVARIANT NeverRaised
INVARIANT AcctInv
INVARIANT LifetimeInv
INVARIANT IdsInv
INVARIANT HistLen
INVARIANT StatsInv
PROPERTY ContinuousResting
PROPERTY FillOnlyLive
PROPERTY LeavesExactly
PROPERTY LeavesAtJump
PROPERTY JumpRow
PROPERTY HistoryImmutable
PROPERTY ClockStep
PROPERTY C08Step
PROPERTY C19Step
CHECK_DEADLOCK FALSE
