---- MODULE MC_PamsSystem_sim ----
\* constants for random behaviours (tlc -simulate) forced through the real SequentialRunner (harness/replay_system.py)
EXTENDS PamsSystem
cSess == << [steps |-> 2, place |-> TRUE, exec |-> FALSE, maxN |-> 2, maxH |-> 1, rate |-> 1],
            [steps |-> 3, place |-> TRUE, exec |-> TRUE, maxN |-> 3, maxH |-> 2, rate |-> 1],
            [steps |-> 1, place |-> FALSE, exec |-> TRUE, maxN |-> 1, maxH |-> 1, rate |-> 2],
            [steps |-> 2, place |-> TRUE, exec |-> TRUE, maxN |-> 2, maxH |-> 1, rate |-> 2] >>
cPrices == {36, 37, 40, 43, 44}
cNoHalt == [on |-> FALSE, targets |-> {}, num |-> 1, den |-> 1, len |-> 0]
====
