SPECIFICATION Spec
CONSTANTS
  NMk = 2
  CHUNK = 2
  Horizon = 5
  MaxChanges = 2
INVARIANT InitialKept
INVARIANT PastKept
INVARIANT SameLength
INVARIANT Covered
PROPERTY PrefixKept
PROPERTY ChangeTouchesOnlyItsSlot
CHECK_DEADLOCK FALSE
