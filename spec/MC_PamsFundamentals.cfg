SPECIFICATION Spec
CONSTANTS
  NMk = 2
  CHUNK = 2
  Horizon = 5
  MaxChanges = 2
INVARIANT InitialKept
INVARIANT PastKept
INVARIANT SameLength
INVARIANT Covered
INVARIANT LateHoldsInitial
PROPERTY PrefixKept
PROPERTY ChangeTouchesOnlyItsSlot
PROPERTY StartNeverGenerated
CHECK_DEADLOCK FALSE
