------------------------------ MODULE PamsBook ------------------------------
(***************************************************************************)
(* The limit order book of one market as a set L of order records, and     *)
(* one matching round.  Two layers:                                        *)
(*                                                                         *)
(*  Reference layer - a transcription of the implementation:               *)
(*    RemainExec = Market.remain_executable_orders   (market.py:792-834)   *)
(*    Walk/RefMatch = Market._execution              (market.py:836-945)   *)
(*    Expired    = OrderBook._check_expired_orders   (order_book.py)       *)
(*    Depth/BestOrd = OrderBook.get_price_volume / get_best_order          *)
(*                                                                         *)
(*  Property layer - what properties C01-C04 allow, over                   *)
(*    (book before the round, reported fills, common price):               *)
(*    C01ok C01single C01rule C02ok C03ok C04ok                            *)
(*  They are evaluated on RefMatch by the design models (PamsMarket) and   *)
(*  on the fills *reported by the real code* by the trace specifications.  *)
(***************************************************************************)
EXTENDS PamsOrder

ById(L, id) == CHOOSE o \in L : o.id = id
InBook(L, id) == \E o \in L : o.id = id
SumVol(S) == FoldSet(LAMBDA o, acc : acc + o.vol, 0, S)
Levels(S) == {o.px : o \in {x \in S : ~x.mo}}
MinOf(S) == CHOOSE x \in S : \A y \in S : x <= y
MaxOf(S) == CHOOSE x \in S : \A y \in S : x >= y

\* ------------------------------------------------------------------ getters
BestOrd(L, isBuy) == Sorted(Side(L, isBuy))[1]               \* only if the side is non-empty
BestId(L, isBuy) == IF Side(L, isBuy) = {} THEN -1 ELSE BestOrd(L, isBuy).id
BestPx(L, isBuy) == IF Side(L, isBuy) = {} THEN NoPx ELSE BestOrd(L, isBuy).px   \* NoPx: empty or market order
\* OrderBook.get_price_volume: market-order bucket first (key None = NoPx), then prices best-first
Depth(L, isBuy) ==
  LET S == Side(L, isBuy)
      lv == Levels(S)
      asc == SetToSortSeq(lv, LAMBDA x, y : IF isBuy THEN x > y ELSE x < y)
      row(p) == <<p, SumVol({o \in S : o.px = p /\ ~o.mo})>>
      lim == [k \in 1..Len(asc) |-> row(asc[k])]
      mos == {o \in S : o.mo} IN
  IF mos = {} THEN lim ELSE <<<<NoPx, SumVol(mos)>>>> \o lim
BookOf(L) == {<<o.id, o.vol>> : o \in L}

\* ------------------------------------------------------------------ lifetime
\* an order lives through step t0+ttl inclusive and leaves when the clock passes it
Expired(L, now) == {o \in L : o.ttl # 0 /\ o.t0 + o.ttl < now}

\* ------------------------------------------------------------------ reference layer
RemainExec(L) ==
  LET B == Sorted(Side(L, TRUE))  S == Sorted(Side(L, FALSE)) IN
  IF Len(B) = 0 \/ Len(S) = 0 THEN FALSE
  ELSE IF ~S[1].mo \/ ~B[1].mo THEN (IF ~S[1].mo /\ ~B[1].mo THEN S[1].px <= B[1].px ELSE TRUE)
  ELSE LET smo == SumVol({o \in Side(L, FALSE) : o.mo})
           bmo == SumVol({o \in Side(L, TRUE) : o.mo})
           sl == Levels(Side(L, FALSE))
           bl == Levels(Side(L, TRUE)) IN
       \* both best orders are market orders: the code compares a NUMBER OF PRICE LEVELS with a
       \* VOLUME difference (market.py:818-826); modelled as is
       IF smo < bmo THEN Cardinality(sl) >= bmo - smo
       ELSE IF smo > bmo THEN Cardinality(bl) >= smo - bmo
       ELSE sl # {} /\ bl # {} /\ MinOf(sl) <= MaxOf(bl)

\* price bookkeeping of one matched pair (market.py:889-916)
PairPrice(b, s, cur) ==
  IF b.mo /\ s.mo THEN cur
  ELSE IF b.mo THEN s.px
  ELSE IF s.mo THEN b.px
  ELSE IF TimeBefore(b, s) THEN b.px ELSE s.px

\* the pop loop: i, j = number of orders popped per side, br, sr = temporary remaining volumes
RECURSIVE Walk(_, _, _, _, _, _, _, _)
Walk(B, S, i, j, br, sr, px, pend) ==
  IF br = 0 /\ i = Len(B) THEN [px |-> px, pend |-> pend]
  ELSE LET i2 == IF br = 0 THEN i + 1 ELSE i
           br2 == IF br = 0 THEN B[i + 1].vol ELSE br IN
    IF sr = 0 /\ j = Len(S) THEN [px |-> px, pend |-> pend]
    ELSE LET j2 == IF sr = 0 THEN j + 1 ELSE j
             sr2 == IF sr = 0 THEN S[j + 1].vol ELSE sr
             b == B[i2]  s == S[j2] IN
      IF ~b.mo /\ ~s.mo /\ b.px < s.px THEN [px |-> px, pend |-> pend]
      ELSE LET v == Min2(br2, sr2) IN
           Walk(B, S, i2, j2, br2 - v, sr2 - v, PairPrice(b, s, px),
                Append(pend, [b |-> b.id, s |-> s.id, v |-> v]))

\* one round: [px |-> common price (NoPx if no fill), pend |-> <<[b, s, v], ...>> in execution order]
RefMatch(L) ==
  IF ~RemainExec(L) THEN [px |-> NoPx, pend |-> <<>>]
  ELSE LET B == Sorted(Side(L, TRUE)) S == Sorted(Side(L, FALSE)) IN
       Walk(B, S, 1, 0, B[1].vol, 0, NoPx, <<>>)

FilledOf(pend, id) ==
  FoldLeft(LAMBDA acc, f : acc + (IF f.b = id THEN f.v ELSE 0) + (IF f.s = id THEN f.v ELSE 0), 0, pend)
TotalVol(pend) == FoldLeft(LAMBDA acc, f : acc + f.v, 0, pend)

\* book after the fills (orders executed out leave the book)
Apply(L, pend) ==
  {[o EXCEPT !.vol = o.vol - FilledOf(pend, o.id)] : o \in {x \in L : x.vol > FilledOf(pend, x.id)}}

\* the three assertion points of _execution that must never trip (C03 "never fails")
RefRaises(L) ==
  LET r == RefMatch(L) IN
  \/ (Len(r.pend) > 0 /\ r.px = NoPx)                       \* `price is None` after the walk
  \/ (RemainExec(L) /\ Len(r.pend) = 0)                     \* idem: entered the walk, nothing priced
  \/ (RemainExec(L) /\ RemainExec(Apply(L, r.pend)))        \* post-condition assertion

\* ------------------------------------------------------------------ property layer
\* well-formed fills: positive volumes, both orders rest in L, nobody over-filled (part of C04)
C04ok(L, pend) ==
  /\ \A k \in 1..Len(pend) : pend[k].v > 0 /\ InBook(L, pend[k].b) /\ InBook(L, pend[k].s)
  /\ \A o \in L : FilledOf(pend, o.id) <= o.vol

\* C01 (i): a buy and a sell of this book, price within both limits
C01ok(L, px, pend) ==
  \A k \in 1..Len(pend) :
    LET b == ById(L, pend[k].b)  s == ById(L, pend[k].s) IN
      /\ b.buy /\ ~s.buy
      /\ (~b.mo => px <= b.px)
      /\ (~s.mo => px >= s.px)
\* C01 (ii): the common price is the limit price of the earlier-accepted order of the LAST pair
\* (the limit order's price when the counterpart is a market order)
C01rule(L, px, pend) ==
  Len(pend) > 0 =>
    LET b == ById(L, pend[Len(pend)].b)  s == ById(L, pend[Len(pend)].s) IN
      /\ ~(b.mo /\ s.mo)
      /\ px = PairPrice(b, s, NoPx)
\* C02: nobody is filled while a higher-priority order of the same side keeps unfilled volume
C02ok(L, pend) ==
  \A o \in L : FilledOf(pend, o.id) > 0 =>
     \A h \in L : (h.buy = o.buy /\ h.id # o.id /\ Before(h, o)) => FilledOf(pend, h.id) = h.vol
\* C03: after a round, if both sides are non-empty and one best order is a limit order,
\* both are limit orders and bid < ask
C03ok(L2) ==
  LET B == Sorted(Side(L2, TRUE))  S == Sorted(Side(L2, FALSE)) IN
  (Len(B) > 0 /\ Len(S) > 0 /\ (~B[1].mo \/ ~S[1].mo)) =>
      (~B[1].mo /\ ~S[1].mo /\ B[1].px < S[1].px)

\* everything C01-C04 demand from one round of the reference algorithm on book L
MatchProps(L) ==
  LET r == RefMatch(L) IN
    /\ C04ok(L, r.pend)
    /\ C01ok(L, r.px, r.pend)
    /\ C01rule(L, r.px, r.pend)
    /\ C02ok(L, r.pend)
    /\ C03ok(Apply(L, r.pend))
    /\ ~RefRaises(L)
=============================================================================
