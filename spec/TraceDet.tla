------------------------------- MODULE TraceDet -------------------------------
(***************************************************************************)
(* C07 (a 2-safety property): two executions of the same (configuration,   *)
(* seed) - in fresh processes with different hash seeds, with perturbed    *)
(* global generators, after another run in the same process, twice with    *)
(* the same settings object - must produce the same observable record:     *)
(* every logger delivery, agent notification, price series and final       *)
(* holdings.  Each record is a sequence of event digests; this product     *)
(* specification steps through both and names the first difference.        *)
(* One NDJSON line: [a, b (digest sequences), smut (settings mutated)].    *)
(***************************************************************************)
EXTENDS Naturals, Sequences, FiniteSets, TLC, Json, IOUtils
VARIABLES tid, i, vd
vars == <<tid, i, vd>>
TraceLog_ == ndJsonDeserialize(IOEnv.TRACE_FILE)
N == Len(TraceLog_)
H == TraceLog_[tid]
Init == tid \in 1..N /\ i = 1 /\ vd = "ok"
\* StepBoth: both executions take their i-th observable step; they must agree
StepBoth ==
  /\ vd = "ok" /\ i <= Len(H.a) /\ i <= Len(H.b)
  /\ vd' = IF H.a[i] # H.b[i] THEN "C07:runs-differ@" \o ToString(i) ELSE "ok"
  /\ i' = i + 1 /\ tid' = tid
Finish ==
  /\ vd = "ok" /\ (i > Len(H.a) \/ i > Len(H.b)) /\ i <= Len(H.a) + Len(H.b) + 1
  /\ vd' = IF Len(H.a) # Len(H.b) THEN "C07:record-lengths-differ@" \o ToString(i)
           ELSE IF H.smut THEN "C07:settings-object-modified@0"
           ELSE IF Len(H.a) = 0 THEN "C07:empty-record@0" ELSE "done"
  /\ i' = Len(H.a) + Len(H.b) + 2 /\ tid' = tid
Next == StepBoth \/ Finish
Spec == Init /\ [][Next]_vars
Done == vd # "ok"
Report == Done => PrintT(<<"VERDICT", tid, TRUE, [C07 |-> IF vd = "done" THEN "ok" ELSE vd]>>)
=============================================================================
