SPECIFICATION Spec
CONSTANTS
  M = 3
  Rules <- cRules
  L = 1
  SessSteps <- cSteps
  SessExec <- cExec
  MaxRounds = 2
  VARIANT = "asis"
INVARIANT NoFillWithoutExec
INVARIANT NoCrash
INVARIANT HaltRespected
INVARIANT Resumed
INVARIANT SwitchRestored
INVARIANT StoppedOnlyByHalt
CHECK_DEADLOCK FALSE
