---- MODULE MC_PamsFundamentals ----
EXTENDS PamsFundamentals
====
