---- MODULE MC_TableEvents ----
EXTENDS TableEvents
cRates == {<<1, 4>>, <<1, 8>>, <<1, 16>>, <<1, 2>>}
====
