---- MODULE MC_PamsMarket_simz ----
\* random behaviours near price zero (a bid below one tick is accepted at price 0, which is a price, not None)
EXTENDS PamsMarket
cReq == {1, 2, 3, 4, 5}
====
