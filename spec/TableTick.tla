----------------------------- MODULE TableTick -----------------------------
(* C19 as a decision table: every (units per tick, requested price, side) of the grid is one state;
   TLC checks the lemmas of C19 on the reference rounding for the whole grid.  The same grid is
   driven through the real Market._add_order by harness/tables_book.py and validated by TraceBook. *)
EXTENDS PamsMarketOps, TLC
CONSTANTS Dens, MaxReq
VARIABLES den, req, buy, px
Init == /\ den \in Dens /\ req \in 1..MaxReq /\ buy \in BOOLEAN
        /\ px = RoundToTick(req, den, buy)
Next == UNCHANGED <<den, req, buy, px>>
Spec == Init /\ [][Next]_<<den, req, buy, px>>
Lemmas == /\ C19ok(req, den, buy, px)
          /\ RoundToTick(px, den, buy) = px                \* idempotent
          /\ RoundToTick(px, den, ~buy) = px               \* an accepted price is on the grid for both sides
          /\ (req % den # 0 => RoundToTick(req, den, TRUE) + den = RoundToTick(req, den, FALSE))
=============================================================================
