---- MODULE MC_PamsMarket_thorough ----
EXTENDS PamsMarket
cReq == {2, 3, 4, 6}
====
