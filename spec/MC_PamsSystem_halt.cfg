SPECIFICATION Spec
CONSTANTS
  NN = 1
  NH = 1
  NM = 1
  Sess <- cSess
  Den = 1
  P0 = 4
  Prices <- cPrices
  Vols = {1}
  TTLs = {0}
  MaxOrders = 3
  HaltRule <- cHalt
INVARIANT Conservation
INVARIANT BooksOk
INVARIANT NoFillWithoutExec
INVARIANT RunningFollowsSession
INVARIANT HaltedStaysStopped
INVARIANT ResumedOnTime
INVARIANT SwitchFollowsHalts
INVARIANT NeverRaisedInRun
INVARIANT OnlyTargetsHalt
INVARIANT LockStep
INVARIANT HistLen
PROPERTY RoundFollows
CHECK_DEADLOCK FALSE
