SPECIFICATION Spec
CONSTANTS
  NN = 3
  NH = 2
  NM = 2
  Sess <- cSess
  Den = 2
  P0 = 40
  Prices <- cPrices
  Vols = {1, 3}
  TTLs = {0, 2}
  MaxOrders = 60
  HaltRule <- cHalt
INVARIANT Conservation
INVARIANT Lifetimes
INVARIANT NoFillWithoutExec
CHECK_DEADLOCK FALSE
INVARIANT HaltedStaysStopped
INVARIANT ResumedOnTime
INVARIANT SwitchFollowsHalts
INVARIANT NeverRaisedInRun
