---- MODULE MC_PamsOrder ----
(* C02: the comparison exposed on accepted orders is a strict total order agreeing with the ranking
   "market orders first, better price, earlier acceptance, lower id" - checked over a finite universe.
   The single state also PRINTS the universe size so that the harness can replay every pair into real
   pams.order.Order objects (harness/tables_book.py builds the same universe). *)
EXTENDS PamsOrder, TLC
CONSTANTS Pxs, T0s, Ids
VARIABLE done
Universe == {MkOrder(id, 0, buy, mo, px, 1, t0, 0) : id \in Ids, buy \in BOOLEAN, mo \in BOOLEAN, px \in Pxs, t0 \in T0s}
\* orders of one side as they can coexist in a book: distinct ids
Init == done = FALSE
Next == done' = TRUE
Spec == Init /\ [][Next]_done
Lemmas ==
  /\ Irreflexive(Universe)
  /\ Asymmetric({o \in Universe : o.buy}) /\ Asymmetric({o \in Universe : ~o.buy})
  /\ Total(Universe)
  /\ Ranking(Universe)
\* transitivity over triples is cubic: a smaller id set is enough because only the order of ids matters
TransLemma == Transitive({o \in Universe : o.id \in {0, 1, 2}})
====
