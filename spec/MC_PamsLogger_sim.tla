---- MODULE MC_PamsLogger_sim ----
EXTENDS PamsLogger
cKinds == LogKinds
====
