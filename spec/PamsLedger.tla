----------------------------- MODULE PamsLedger -----------------------------
(***************************************************************************)
(* Holdings (Simulator._update_agents_for_execution, simulator.py).        *)
(* A ledger is a sequence over agents of <<cash, shares_1, ..., shares_M>> *)
(* (cash in cash units; cs[m] = cash units per (price unit x share) of     *)
(* market m).  A fill is <<b, s, px, v, buyerAgent, sellerAgent, t, m>>    *)
(* with agents and markets numbered from 0 as in the code.                 *)
(***************************************************************************)
EXTENDS TraceBase

\* one fill: price x volume of cash from buyer to seller, volume shares from seller to buyer
\* (a recorded price far outside any price range stands for "not on the unit grid": it never enters the arithmetic - the
\*  holdings observed can then not equal the fold, which is what the trace specification reports)
ApplyFill(led, f, cs) ==
  LET ba == f[5] + 1  sa == f[6] + 1  m == f[8] + 1
      amt == IF f[3] < -100000000 THEN 0 ELSE f[3] * f[4] * cs[m]  vol == f[4] IN
  [a \in 1..Len(led) |->
     [k \in 1..Len(led[a]) |->
        led[a][k]
        + (IF k = 1 THEN (IF a = sa THEN amt ELSE 0) - (IF a = ba THEN amt ELSE 0) ELSE 0)
        + (IF k = m + 1 THEN (IF a = ba THEN vol ELSE 0) - (IF a = sa THEN vol ELSE 0) ELSE 0)]]
ApplyFills(led, fills, cs) == FoldLeft(LAMBDA L, f : ApplyFill(L, f, cs), led, fills)

TotalCash(led) == SumSeq([a \in 1..Len(led) |-> led[a][1]])
TotalShares(led, m) == SumSeq([a \in 1..Len(led) |-> led[a][m + 1]])
\* C05, second sentence: totals are constant
Conserved(led0, led) ==
  /\ TotalCash(led) = TotalCash(led0)
  /\ \A m \in 1..(Len(led0[1]) - 1) : TotalShares(led, m) = TotalShares(led0, m)
=============================================================================
