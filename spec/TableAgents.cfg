SPECIFICATION Spec
INVARIANT FcnLemmas
INVARIANT MmLemmas
INVARIANT ArbLemmas
CHECK_DEADLOCK FALSE
