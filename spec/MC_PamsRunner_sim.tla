---- MODULE MC_PamsRunner_sim ----
\* larger population for random behaviours (tlc -simulate) that are forced through the real SequentialRunner
EXTENDS PamsRunner
cSess == << [steps |-> 2, place |-> TRUE, exec |-> FALSE, maxN |-> 2, maxH |-> 1, rate |-> 1],
            [steps |-> 1, place |-> FALSE, exec |-> TRUE, maxN |-> 3, maxH |-> 2, rate |-> 2],
            [steps |-> 3, place |-> TRUE, exec |-> TRUE, maxN |-> 3, maxH |-> 2, rate |-> 1] >>
cIndex == {2}
====
