---- MODULE MC_PamsMarket_jump ----
\* clock jumps (Market._set_time) interleaved with submissions, cancels, steps, rounds and halts: every history of up to
\* 2 orders over 5 steps with jumps of 2 and 3 steps (positive prices: the `sum > 0` test of _set_time is then always met)
EXTENDS PamsMarket
cReq == {2, 3, 4}
cJumps == {2, 3}
====
