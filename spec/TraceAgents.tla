------------------------------ MODULE TraceAgents ------------------------------
(***************************************************************************)
(* C20: built-in agents were instantiated on real markets brought to       *)
(* tabulated states (harness/drive_agents.py); this specification compares *)
(* what Agent.submit_orders returned with the decision rules of PamsAgents.*)
(* ord = <<agent id, market id, isBuy, isLimit, volume, ttl, price (fine   *)
(* units or -1), accessible>> ; pok = harness side condition for the float *)
(* price formula (relative 1e-12).                                         *)
(***************************************************************************)
EXTENDS PamsAgents, TLC, Json, IOUtils
VARIABLES tid, done
TraceLog_ == ndJsonDeserialize(IOEnv.TRACE_FILE)
N == Len(TraceLog_)
Init == tid \in 1..N /\ done = FALSE
Next == ~done /\ done' = TRUE /\ tid' = tid
Spec == Init /\ [][Next]_<<tid, done>>

WellFormed(c) == \A i \in 1..Len(c.ords) :
   LET o == c.ords[i] IN o[1] = c.aid /\ o[8] /\ o[5] > 0 /\ o[6] >= 1 /\ o[4]

Bad(c) ==
  IF c.out # "ok" THEN "agent-raised-" \o c.out
  ELSE IF ~WellFormed(c) THEN "ill-formed-order"
  ELSE CASE c.c = "fcn" ->
         LET d == FcnDirection(c.wF, c.wC, c.wN, c.af, c.a, c.ap, c.k, c.tr, c.tw) IN
         IF d = 0 THEN (IF Len(c.ords) # 0 THEN "fcn-orders-without-expected-move" ELSE "")
         \* one order per accessible market (c.mks, all in the same state here), in the order of the markets
         ELSE IF Len(c.ords) # Len(c.mks) THEN "fcn-order-count"
         ELSE IF \E i \in 1..Len(c.ords) : c.ords[i][3] # (d > 0) THEN "fcn-direction"
         ELSE IF \E i \in 1..Len(c.ords) : c.ords[i][2] # c.mks[i] THEN "fcn-market"
         ELSE IF \E i \in 1..Len(c.ords) : c.ords[i][5] # 1 \/ c.ords[i][6] # c.ttl THEN "fcn-volume-or-lifetime"
         ELSE IF ~c.pok THEN "fcn-price" ELSE ""
    [] c.c = "mm" ->
         LET q == MmQuotes(c.bests, c.tpx, c.fund, c.sn, c.sd) IN
         IF Len(c.ords) # 2 THEN "mm-order-count"
         ELSE LET b == c.ords[1]  s == c.ords[2] IN
              IF ~b[3] \/ s[3] THEN "mm-sides"
              ELSE IF b[2] # c.mkt \/ s[2] # c.mkt THEN "mm-market"
              ELSE IF b[5] # 1 \/ s[5] # 1 \/ b[6] # c.ttl \/ s[6] # c.ttl THEN "mm-volume-or-lifetime"
              ELSE IF 4 * c.sd * b[7] # q[1] \/ 4 * c.sd * s[7] # q[2] THEN "mm-quotes" ELSE ""
    [] c.c = "arb" ->
         LET d == ArbDirection(c.ipx, c.ival, c.thr, c.active)  n == Len(c.comps) IN
         IF d = 0 THEN (IF Len(c.ords) # 0 THEN "arb-acts-inside-threshold" ELSE "")
         ELSE IF Len(c.ords) # n + 1 THEN "arb-basket-size"
         ELSE LET io == c.ords[1] IN
              IF io[2] # c.imkt \/ io[3] # (d > 0) \/ io[5] # n * c.v THEN "arb-index-leg"
              ELSE IF \E i \in 2..(n + 1) : c.ords[i][3] # (d < 0) \/ c.ords[i][5] # c.v \/ c.ords[i][2] # c.comps[i - 1] THEN "arb-component-legs"
              ELSE IF \E i \in 1..(n + 1) : c.ords[i][6] # c.ttl THEN "arb-lifetime"
              ELSE IF ~c.pok THEN "arb-prices" ELSE ""
    [] c.c = "arb2" ->
         \* several index markets: the baskets of the indices one after the other; idxs[i] = <<index market, index price, index value, components>>
         LET Basket(x) == LET d == ArbDirection(x[2], x[3], c.thr, TRUE)  n == Len(x[4]) IN
                          IF d = 0 THEN <<>>
                          ELSE <<<<x[1], d > 0, n * c.v>>>> \o [k \in 1..n |-> <<x[4][k], d < 0, c.v>>]
             want == FoldLeft(LAMBDA acc, x : acc \o Basket(x), <<>>, c.idxs)
             got == [k \in 1..Len(c.ords) |-> <<c.ords[k][2], c.ords[k][3], c.ords[k][5]>>] IN
         IF got # want THEN "arb-baskets-of-several-indices"
         ELSE IF \E k \in 1..Len(c.ords) : c.ords[k][6] # c.ttl THEN "arb-lifetime"
         ELSE IF ~c.pok THEN "arb-prices" ELSE ""
    [] c.c = "share" ->
         IF \E i, j \in 1..Len(c.ords) : c.ords[i][2] # c.ords[j][2] THEN "share-more-than-one-market"
         ELSE IF Len(c.ords) > 1 THEN "share-order-count" ELSE ""
    [] c.c = "pop" ->
         \* a group of FCN agents built by the runner: ags[i] = <<time window, mean reversion time>>, cfgtr the configured
         \* mean reversion time (-1: none, the documented default is the agent's own time window)
         IF \E i \in 1..Len(c.ags) : c.ags[i][2] # (IF c.cfgtr >= 0 THEN c.cfgtr ELSE c.ags[i][1])
         THEN "fcn-mean-reversion-time-of-a-group" ELSE ""
    [] OTHER -> "unknown-case"

Verdict(h) ==
  LET bad == {i \in 1..Len(h.cs) : Bad(h.cs[i]) # ""} IN
  IF bad = {} THEN "ok"
  ELSE LET i == CHOOSE x \in bad : \A y \in bad : x <= y IN "C20:" \o Bad(h.cs[i]) \o "@" \o ToString(i)
Report == done => PrintT(<<"VERDICT", tid, TRUE, [C20 |-> Verdict(TraceLog_[tid])]>>)
=============================================================================
