------------------------------ MODULE TraceOwner ------------------------------
(***************************************************************************)
(* C04, run level: "an order object is accepted ... only when submitted by *)
(* its owner".  Negative scenarios (harness/drive_run.spoof_runs): a       *)
(* scripted agent returns a batch in which one order names ANOTHER agent,  *)
(* alone or among orders of its own.  ret events carry, per returned       *)
(* order, the object id and the agent id the order claims; acc events are  *)
(* acceptances observed on the markets.  An acceptance of an object that   *)
(* was returned by an agent it does not name is the violation (whatever    *)
(* the runner does with the rest of the batch).                            *)
(***************************************************************************)
EXTENDS TraceBase, TLC, Json, IOUtils
VARIABLES tid, l, forged, v
tvars == <<tid, l, forged, v>>
TraceLog_ == ndJsonDeserialize(IOEnv.TRACE_FILE)
N == Len(TraceLog_)
Ev == TraceLog_[tid].ev
Init == tid \in 1..N /\ l = 1 /\ forged = {} /\ v = [C04 |-> "ok"]
Step ==
  /\ l <= Len(Ev) /\ l' = l + 1 /\ tid' = tid
  /\ LET e == Ev[l] IN
     CASE e.k = "ret" ->
            /\ forged' = forged \cup {e.batch[i][8] : i \in {j \in 1..Len(e.batch) : e.batch[j][1] = "o" /\ e.batch[j][9] # e.a}}
            /\ v' = v
       [] e.k = "acc" ->
            /\ forged' = forged
            /\ v' = [v EXCEPT !.C04 = Fl(@, e.obj \in forged, "C04:order-of-another-agent-accepted", l)]
       [] OTHER -> UNCHANGED <<forged, v>>
Done == l = Len(Ev) + 1
Report == Done => PrintT(<<"VERDICT", tid, TRUE, v>>)
Spec == Init /\ [][Step]_tvars
=============================================================================
