---- MODULE MC_PamsFundamentals_late ----
\* three markets, one starting at once, one at time 2 (a chunk end), one at time 3 (inside a chunk)
EXTENDS PamsFundamentals
cStart == <<0, 2, 3>>
====
