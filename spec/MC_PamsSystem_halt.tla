---- MODULE MC_PamsSystem_halt ----
\* the composition WITH a trading halt rule: one market (the target), rate 1/4 of a time-0 price of 4 units, halts of one
\* further step, two execution sessions of 2 and 3 steps so that a halt can be cut short by the end of its session and its
\* record run out in the next one
EXTENDS PamsSystem
cSess == << [steps |-> 2, place |-> TRUE, exec |-> TRUE, maxN |-> 1, maxH |-> 1, rate |-> 2],
            [steps |-> 3, place |-> TRUE, exec |-> TRUE, maxN |-> 1, maxH |-> 1, rate |-> 2] >>
cPrices == {3, 4, 5}
cHalt == [on |-> TRUE, targets |-> {1}, num |-> 1, den |-> 4, len |-> 1]
====
