"""C12: the real Fundamentals under histories of gets / parameter changes / shocks (bit-exact change detection),
an algebraic probe of the return law (NumPy generator replaced by chosen draws) and sampling checks."""
import math
import random
import warnings

import numpy as np

from .common import import_pams, sub_seed

import_pams()
from pams.market import Market  # noqa: E402
from pams.simulator import Simulator  # noqa: E402


def _snapshot(f):
    return {m: list(v) for m, v in f.prices.items()}


def _changed(prev, cur):
    out = []
    for m, old in prev.items():
        new = cur[m]
        for u in range(min(len(old), len(new))):
            if old[u] != new[u] or math.copysign(1, old[u]) != math.copysign(1, new[u]):
                out.append([int(m), int(u)])
    return out


def _obs(f, prev, inits):
    cur = _snapshot(f)
    e = {"chg": _changed(prev, cur), "lens": [len(cur[m]) for m in sorted(cur)], "gu": int(f._generated_until) if hasattr(f, "_generated_until") else -1,
         "pos": bool(all(x > 0 and math.isfinite(x) for v in cur.values() for x in v)),
         "init": True, "lvl": True, "out": "ok"}
    return e, cur


def history(seed, zero_vol=False, chunk=None):
    rng = random.Random(seed)
    sim = Simulator(prng=random.Random(seed))
    f = sim.fundamentals
    if chunk:
        f._generate_chunk_size = chunk
    ch = f._generate_chunk_size
    nm = rng.randint(1, 3)
    mkts, inits, drifts = [], {}, {}
    for m in range(nm):
        init = float(rng.choice([100.0, 250.0, 1000.0, 37.5]))
        drift = rng.choice([0.0, 0.001, -0.002]) if zero_vol else rng.choice([0.0, 0.0001])
        vol = 0.0 if zero_vol else rng.choice([0.01, 0.02, 0.005])
        mk = Market(market_id=m, prng=random.Random(m), simulator=sim, name="m%d" % m)
        mk.setup({"tickSize": 0.01, "marketPrice": init})
        sim._add_market(mk)
        f.add_market(market_id=m, initial=init, drift=drift, volatility=vol)
        mkts.append(mk)
        inits[m] = init
        drifts[m] = drift
    if nm >= 2 and not zero_vol and rng.random() < 0.7:
        f.set_correlation(0, 1, rng.choice([0.5, -0.3, 0.9]))
    # (a generator of its own: the histories drawn from rng stay what they were)
    r2 = random.Random(seed ^ 0x5EED)
    starts = [0] * nm
    late = None
    if r2.random() < 0.35:
        # one more market in the generator that STARTS LATE (no Market object steps it): it holds its initial value up to its
        # start, its start is a generation boundary for everybody
        late = nm
        s_at = r2.choice([1, 2, ch - 1, ch, ch + 1, 2 * ch, 150])
        s_at = max(1, s_at)
        f.add_market(market_id=late, initial=77.0, drift=0.0, volatility=0.0 if zero_vol else 0.01, start_at=s_at)
        inits[late] = 77.0
        starts.append(s_at)
        if not zero_vol and r2.random() < 0.5:
            f.set_correlation(0, late, 0.4)
    ev = []
    prev = _snapshot(f)
    level = {m: (0, inits[m]) for m in range(nm)}      # zero volatility: (time, value) the path continues from
    changed_init = set()
    nops = rng.choice([20, 40])
    for _ in range(nops):
        if r2.random() < 0.1:
            # a change that must be REFUSED (negative volatility): it raises and leaves the generator as it was - what is
            # generated afterwards still follows the configured parameters
            refused = False
            try:
                f.change_volatility(market_id=r2.randrange(nm), volatility=-0.02, time=max(0, mkts[0].get_time()))
            except ValueError:
                refused = True
            except Exception:  # noqa: BLE001
                pass
            obs, cur = _obs(f, prev, inits)
            e = {"k": "neg", "t": max(0, mkts[0].get_time()), "refused": refused}
            e.update(obs)
            ev.append(e)
            prev = cur
        r = rng.random()
        now = mkts[0].get_time()
        e = None
        try:
            with warnings.catch_warnings():
                warnings.simplefilter("ignore")
                if r < 0.45:
                    # clock step of all markets: reads the fundamental for now + 1
                    sim._update_times_on_markets(mkts)
                    e = {"k": "get", "t": now + 1}
                elif r < 0.65:
                    t = max(0, now + rng.choice([-3, 0, 1, ch - 1, ch, ch + 1, 2 * ch, rng.randint(0, 3 * ch)]))
                    f.get_fundamental_price(market_id=rng.randrange(nm), time=t)
                    e = {"k": "get", "t": t}
                elif r < 0.85 and now >= 0:
                    glen = min(len(v) for v in f.prices.values())
                    t = rng.choice([now, max(0, now - 2), min(glen - 1, now + rng.randint(0, 5))])
                    what = rng.choice(["vol", "drift", "corr"] if (nm >= 2 and not zero_vol) else ["vol", "drift"])
                    m = rng.randrange(nm)
                    if what == "vol":
                        f.change_volatility(market_id=m, volatility=0.0 if zero_vol else rng.choice([0.01, 0.03]), time=t)
                    elif what == "drift":
                        d = rng.choice([0.0, 0.001, -0.001])
                        f.change_drift(market_id=m, drift=d, time=t)
                        if zero_vol:
                            # the path of EVERY market continues from its level at t with its (new) drift
                            for mm in range(nm):
                                level[mm] = (t, f.prices[mm][t])
                            drifts[m] = d
                    else:
                        f.set_correlation(0, 1, rng.choice([0.2, -0.5, 0.7]), time=t)
                    e = {"k": "chg", "t": t, "what": what}
                    if zero_vol and what == "vol":
                        for mm in range(nm):
                            level[mm] = (t, f.prices[mm][t])
                elif now >= 0:
                    m = rng.randrange(nm)
                    scale = rng.choice([1.25, 0.5, 1.1, 0.9])
                    before = mkts[m].get_fundamental_price()
                    mkts[m].change_fundamental_price(scale=scale)
                    e = {"k": "shock", "m": m, "t": now}
                    after = f.prices[m][now]
                    ok = abs(after - before * scale) <= 1e-12 * abs(after) and mkts[m].get_fundamental_price() == after
                    e["_lvl"] = bool(ok)
                    if now == 0:
                        changed_init.add(m)
                    if zero_vol:
                        for mm in range(nm):
                            level[mm] = (now, f.prices[mm][now])
        except Exception as ex:  # noqa: BLE001
            if e is None:
                e = {"k": "get", "t": now + 1}
            e["out_"] = type(ex).__name__
        if e is None:
            continue
        obs, cur = _obs(f, prev, inits)
        lvl = e.pop("_lvl", True)
        out = e.pop("out_", "ok")
        e.update(obs)
        e["lvl"] = bool(lvl)
        e["out"] = out
        e["init"] = bool(all(cur[m][0] == inits[m] for m in cur if m not in changed_init)
                         and (late is None or all(x == inits[late] for x in cur[late][:starts[late] + 1])))
        ev.append(e)
        prev = cur
        if out != "ok":
            break
        if zero_vol:
            ok = True
            for m in range(nm):
                t0, v0 = level[m]
                for u in range(t0, min(len(cur[m]), f._generated_until + 1)):    # entries past genUntil are stale until regenerated
                    want = v0 * math.exp(drifts[m] * (u - t0))
                    ok = ok and abs(cur[m][u] - want) <= 1e-9 * want
            ev.append({"k": "level", "lvl": bool(ok), "pos": True, "init": True, "chg": [], "out": "ok", "t": 0})
    return {"mode": "hist", "chunk": int(ch), "ev": ev, "seed": seed, "zero_vol": zero_vol, "starts": starts}


# ------------------------------------------------------------------------------------------------ algebraic probe
ROWSETS = [
    (1, [[1]]),
    (5, [[5, 0], [3, 4]]),
    (5, [[5, 0], [-4, 3]]),
    (13, [[13, 0], [5, 12]]),
    (35, [[35, 0, 0], [21, 28, 0], [10, 15, 30]]),
    (35, [[35, 0, 0], [-28, 21, 0], [10, -15, 30]]),
    (5, [[5, 0, 0], [0, 5, 0], [3, 0, 4]]),
]


class _StubNp:
    def __init__(self, zs):
        self.zs = zs
        self.calls = 0

    def standard_normal(self, size):
        n, length = size
        out = np.zeros((n, length))
        for j in range(length):
            z = self.zs[(self.calls + j) % len(self.zs)]
            for i in range(n):
                out[i, j] = z[i]
        self.calls += length
        return out


def ret_cases(tier, seed):
    rng = random.Random(sub_seed(seed, "ret"))
    out = []
    n = 40 if tier == "quick" else 600
    for _ in range(n):
        den, rows = rng.choice(ROWSETS)
        k = len(rows)
        extra_zero = rng.random() < 0.4            # an additional zero-volatility market (not part of the Cholesky block)
        vols = [rng.choice([1, 2, 4, 8]) for _ in range(k)]
        drifts = [rng.choice([0, 1, -2, 4]) for _ in range(k)]
        zs = []
        for i in range(k):
            z = [0] * k
            z[i] = 1
            zs.append(z)
        zs.append([1] * k)
        zs.append([(-1) ** i * (i + 1) for i in range(k)])
        sim = Simulator(prng=random.Random(1))
        f = sim.fundamentals
        ids = list(range(k))
        zero_id = None
        if extra_zero:
            zero_id = rng.randint(0, k)
            ids = [i for i in range(k + 1) if i != zero_id]
        for j in range(k + (1 if extra_zero else 0)):
            if extra_zero and j == zero_id:
                f.add_market(market_id=j, initial=100.0, drift=0.0, volatility=0.0)
            else:
                i = ids.index(j)
                f.add_market(market_id=j, initial=100.0 * (i + 1), drift=drifts[i] / 1024.0, volatility=vols[i] / 64.0)
        corr = [[sum(a * b for a, b in zip(rows[i], rows[j])) for j in range(k)] for i in range(k)]
        first_named = {}
        for i in range(k):
            for j in range(i + 1, k):
                if corr[i][j] != 0:
                    x, y = (ids[i], ids[j]) if rng.random() < 0.5 else (ids[j], ids[i])    # a pair may be named in either order
                    first_named[(i, j)] = (x, y)
                    if rng.random() < 0.5:
                        # earlier settings of the same pair, in both orientations: the LAST setting is the one in force
                        f.set_correlation(x, y, 0.125)
                        f.set_correlation(y, x, -0.25)
                        if rng.random() < 0.5:
                            x, y = y, x
                    f.set_correlation(x, y, corr[i][j] / float(den * den))
        f._np_prng = _StubNp(zs)
        steps = len(zs) * 2
        if len(out) % 3 == 0:
            # a refused change (negative volatility) before anything is generated: the configured volatility stays in force
            try:
                f.change_volatility(market_id=ids[0], volatility=-(vols[0] + 1) / 64.0)
                out.append({"c": "stat", "what": "negative-volatility-accepted", "ok": False})
            except ValueError:
                pass
            except Exception as ex:  # noqa: BLE001
                out.append({"c": "stat", "what": "refused-change-raised-" + type(ex).__name__, "ok": False})
        try:
            prices = {i: f.get_fundamental_prices(market_id=ids[i], times=range(steps + 1)) for i in range(k)}
        except Exception as ex:  # noqa: BLE001 - generation itself failed: judged as a failed case, not a harness error
            out.append({"c": "stat", "what": "generation-raised-" + type(ex).__name__, "ok": False})
            continue
        obs = []
        for s in range(steps):
            obs.append([int(round(math.log(prices[i][s + 1] / prices[i][s]) * 1e6)) for i in range(k)])
        out.append({"c": "ret", "den": den, "rows": rows, "corr": corr, "vols": vols, "drifts": drifts,
                    "zs": [zs[s % len(zs)] for s in range(steps)], "obs": obs})
        if rng.random() < 0.6:
            # the parameters change at the last time already handed out (volatility between two NON-ZERO values, drift):
            # the value at that time stays, the returns after it follow the NEW parameters
            t0 = steps
            vols2 = [rng.choice([x for x in (1, 2, 4, 8, 16) if x != vols[i]]) if rng.random() < 0.7 else vols[i] for i in range(k)]
            drifts2 = [rng.choice([0, 1, -2, 4]) if rng.random() < 0.4 else drifts[i] for i in range(k)]
            try:
                for i in range(k):
                    if vols2[i] != vols[i]:
                        f.change_volatility(market_id=ids[i], volatility=vols2[i] / 64.0, time=t0)
                    if drifts2[i] != drifts[i]:
                        f.change_drift(market_id=ids[i], drift=drifts2[i] / 1024.0, time=t0)
                c0 = f._np_prng.calls
                prices2 = {i: f.get_fundamental_prices(market_id=ids[i], times=range(t0, t0 + steps + 1)) for i in range(k)}
            except Exception as ex:  # noqa: BLE001
                out.append({"c": "stat", "what": "parameter-change-raised-" + type(ex).__name__, "ok": False})
                continue
            out.append({"c": "stat", "what": "value-at-change-time-altered", "ok": all(prices2[i][0] == prices[i][t0] for i in range(k))})
            obs2 = [[int(round(math.log(prices2[i][s + 1] / prices2[i][s]) * 1e6)) for i in range(k)] for s in range(steps)]
            out.append({"c": "ret", "den": den, "rows": rows, "corr": corr, "vols": vols2, "drifts": drifts2,
                        "zs": [zs[(c0 + s) % len(zs)] for s in range(steps)], "obs": obs2})
            alts = [(d2, r2) for d2, r2 in ROWSETS if len(r2) == k and r2 != rows]
            if alts and k >= 2 and rng.random() < 0.7:
                # ... and then the CORRELATIONS change at the last delivered time, every pair named in the opposite order to
                # the one it was last set with: the returns after it follow the new correlations
                den3, rows3 = rng.choice(alts)
                corr3 = [[sum(a * b for a, b in zip(rows3[i], rows3[j])) for j in range(k)] for i in range(k)]
                t1 = t0 + steps
                try:
                    for i in range(k):
                        for j in range(i + 1, k):
                            x, y = first_named.get((i, j), (ids[i], ids[j]))
                            f.set_correlation(y, x, corr3[i][j] / float(den3 * den3), time=t1)      # ONLY the opposite order
                    c1 = f._np_prng.calls
                    prices3 = {i: f.get_fundamental_prices(market_id=ids[i], times=range(t1, t1 + steps + 1)) for i in range(k)}
                except Exception as ex:  # noqa: BLE001
                    out.append({"c": "stat", "what": "correlation-change-raised-" + type(ex).__name__, "ok": False})
                    continue
                out.append({"c": "stat", "what": "value-at-change-time-altered", "ok": all(prices3[i][0] == prices2[i][steps] for i in range(k))})
                obs3 = [[int(round(math.log(prices3[i][s + 1] / prices3[i][s]) * 1e6)) for i in range(k)] for s in range(steps)]
                out.append({"c": "ret", "den": den3, "rows": rows3, "corr": corr3, "vols": vols2, "drifts": drifts2,
                            "zs": [zs[(c1 + s) % len(zs)] for s in range(steps)], "obs": obs3})
    return out


def late_partner_cases(tier, seed):
    """the algebraic probe with a LATE partner: the last market of the correlated block starts its walk at time s.  Up to s
    the others follow the law of the block without it (the leading rows of the same Cholesky factor), the late market holds
    its initial value; from s on all of them follow the full law - the correlations configured before the start included"""
    rng = random.Random(sub_seed(seed, "late-partner"))
    out = []
    for _ in range(16 if tier == "quick" else 300):
        den, rows = rng.choice([x for x in ROWSETS if len(x[1]) >= 2])
        k = len(rows)
        s0 = rng.choice([2, 3, 7])
        vols = [rng.choice([1, 2, 4, 8]) for _ in range(k)]
        drifts = [rng.choice([0, 1, -2, 4]) for _ in range(k)]
        zs = []
        for i in range(k):
            z = [0] * k
            z[i] = 1
            zs.append(z)
        zs.append([1] * k)
        zs.append([(-1) ** i * (i + 1) for i in range(k)])
        sim = Simulator(prng=random.Random(1))
        f = sim.fundamentals
        corr = [[sum(a * b for a, b in zip(rows[i], rows[j])) for j in range(k)] for i in range(k)]
        steps = len(zs) * 2
        try:
            for i in range(k):
                f.add_market(market_id=i, initial=100.0 * (i + 1), drift=drifts[i] / 1024.0, volatility=vols[i] / 64.0,
                             **({"start_at": s0} if i == k - 1 else {}))
            for i in range(k):
                for j in range(i + 1, k):
                    if corr[i][j] != 0:
                        x, y = (i, j) if rng.random() < 0.5 else (j, i)
                        f.set_correlation(x, y, corr[i][j] / float(den * den))
            f._np_prng = _StubNp(zs)
            early = {i: f.get_fundamental_prices(market_id=i, times=range(0, s0 + 1)) for i in range(k)}
            late = {i: f.get_fundamental_prices(market_id=i, times=range(s0, s0 + steps + 1)) for i in range(k)}
        except Exception as ex:  # noqa: BLE001
            out.append({"c": "stat", "what": "late-partner-raised-" + type(ex).__name__, "ok": False})
            continue
        out.append({"c": "stat", "what": "late-partner-holds-initial-value-until-its-start", "ok": bool(all(x == 100.0 * k for x in early[k - 1]))})
        out.append({"c": "stat", "what": "late-partner-value-at-start-differs", "ok": bool(all(late[i][0] == early[i][s0] for i in range(k)))})
        # before the start: the block without the late market
        obs = [[int(round(math.log(early[i][t + 1] / early[i][t]) * 1e6)) for i in range(k - 1)] for t in range(s0)]
        out.append({"c": "ret", "den": den, "rows": [r[:k - 1] for r in rows[:k - 1]], "corr": [r[:k - 1] for r in corr[:k - 1]],
                    "vols": vols[:k - 1], "drifts": drifts[:k - 1], "zs": [zs[t % len(zs)][:k - 1] for t in range(s0)], "obs": obs})
        # from the start on: the full block (the generator has handed out s0 columns by then)
        obs2 = [[int(round(math.log(late[i][t + 1] / late[i][t]) * 1e6)) for i in range(k)] for t in range(steps)]
        out.append({"c": "ret", "den": den, "rows": rows, "corr": corr, "vols": vols, "drifts": drifts,
                    "zs": [zs[(s0 + t) % len(zs)] for t in range(steps)], "obs": obs2})
    # the plural getter takes its times in any order (and hands the prices back in that order)
    for order in ("descending", "shuffled", "largest-first"):
        sim = Simulator(prng=random.Random(2))
        f = sim.fundamentals
        f.add_market(market_id=0, initial=100.0, drift=0.001, volatility=0.0)
        times = list(range(0, 260))
        if order == "descending":
            times.reverse()
        elif order == "shuffled":
            rng.shuffle(times)
        else:
            times = [259] + times[:259]
        try:
            ps = f.get_fundamental_prices(market_id=0, times=times)
            ok = len(ps) == len(times) and all(abs(p - 100.0 * math.exp(0.001 * t)) <= 1e-9 * 100.0 for p, t in zip(ps, times))
            out.append({"c": "stat", "what": "plural-getter-with-%s-times" % order, "ok": bool(ok)})
        except Exception as ex:  # noqa: BLE001
            out.append({"c": "stat", "what": "plural-getter-with-%s-times-raised-%s" % (order, type(ex).__name__), "ok": False})
    return out


def late_cases(tier, seed):
    """rarely used entry points: a market whose walk starts late (add_market(start_at=s)) holds its initial value up to s
    and walks from there; a market configured through the runner with a drift but no volatility follows the closed form"""
    rng = random.Random(sub_seed(seed, "late"))
    out = []
    for _ in range(12 if tier == "quick" else 200):
        sim = Simulator(prng=random.Random(rng.randrange(2 ** 30)))
        f = sim.fundamentals
        f.add_market(market_id=0, initial=100.0, drift=0.0, volatility=rng.choice([0.0, 0.01]))
        s0 = rng.choice([1, 2, 5, 40, 99, 100, 101, 150])
        d = rng.choice([0.0, 0.001, -0.002])
        zero = rng.random() < 0.6
        init = float(rng.choice([50.0, 300.0]))
        try:
            f.add_market(market_id=1, initial=init, drift=d, volatility=0.0 if zero else 0.02, start_at=s0)
            ps = f.get_fundamental_prices(market_id=1, times=range(0, s0 + 30))
            p0 = f.get_fundamental_prices(market_id=0, times=range(0, s0 + 30))
        except Exception as ex:  # noqa: BLE001
            out.append({"c": "stat", "what": "late-start-raised-" + type(ex).__name__, "ok": False})
            continue
        out.append({"c": "stat", "what": "late-start-holds-initial-value-until-its-start", "ok": bool(all(x == init for x in ps[:s0 + 1]))})
        out.append({"c": "stat", "what": "late-start-positive", "ok": bool(all(x > 0 for x in ps) and all(x > 0 for x in p0))})
        if zero:
            ok = all(abs(ps[s0 + j] - init * math.exp(d * j)) <= 1e-9 * init for j in range(30))
            out.append({"c": "stat", "what": "late-start-closed-form", "ok": bool(ok)})
    # through the runner: every combination of fundamentalDrift / fundamentalVolatility being configured
    from pams.runners.sequential import SequentialRunner
    for has_d, has_v in ((True, False), (False, True), (True, True), (False, False)):
        mk = {"class": "Market", "tickSize": 0.01, "marketPrice": 200.0}
        if has_d:
            mk["fundamentalDrift"] = 0.001
        if has_v:
            mk["fundamentalVolatility"] = 0.0
        cfg = {"simulation": {"markets": ["M"], "agents": [], "sessions": [
            {"sessionName": 0, "iterationSteps": 3, "withOrderPlacement": True, "withOrderExecution": True, "withPrint": False}]}, "M": mk}
        try:
            with warnings.catch_warnings():
                warnings.simplefilter("ignore")
                r = SequentialRunner(settings=cfg, prng=random.Random(3))
                r._setup()
            ps = r.simulator.fundamentals.get_fundamental_prices(market_id=0, times=range(0, 12))
            dd = 0.001 if has_d else 0.0
            ok = all(abs(ps[j] - 200.0 * math.exp(dd * j)) <= 1e-9 * 200.0 for j in range(12))
            out.append({"c": "stat", "what": "runner-drift%d-volatility%d-closed-form" % (has_d, has_v), "ok": bool(ok)})
        except Exception as ex:  # noqa: BLE001
            out.append({"c": "stat", "what": "runner-setup-raised-" + type(ex).__name__, "ok": False})
    # two market types in one configuration: what one declares does not leak into the other; a declared fundamentalPrice (not
    # the marketPrice) is where the fundamental starts
    for first in ("A", "B"):
        cfg = {"simulation": {"markets": ["A", "B"] if first == "A" else ["B", "A"], "agents": [], "sessions": [
            {"sessionName": 0, "iterationSteps": 3, "withOrderPlacement": True, "withOrderExecution": True, "withPrint": False}]},
            "A": {"class": "Market", "tickSize": 0.01, "marketPrice": 300.0, "fundamentalPrice": 360.0, "fundamentalDrift": 0.002,
                  "fundamentalVolatility": 0.0},
            "B": {"class": "Market", "tickSize": 0.01, "marketPrice": 100.0}}
        try:
            with warnings.catch_warnings():
                warnings.simplefilter("ignore")
                r = SequentialRunner(settings=cfg, prng=random.Random(4))
                r._setup()
            f = r.simulator.fundamentals
            pa = f.get_fundamental_prices(market_id=r.simulator.name2market["A"].market_id, times=range(0, 10))
            pb = f.get_fundamental_prices(market_id=r.simulator.name2market["B"].market_id, times=range(0, 10))
            out.append({"c": "stat", "what": "runner-starts-at-the-declared-fundamentalPrice",
                        "ok": bool(all(abs(pa[j] - 360.0 * math.exp(0.002 * j)) <= 1e-9 * 360.0 for j in range(10)))})
            out.append({"c": "stat", "what": "runner-market-without-drift-and-volatility-stays-at-its-price",
                        "ok": bool(all(x == 100.0 for x in pb))})
        except Exception as ex:  # noqa: BLE001
            out.append({"c": "stat", "what": "runner-setup-raised-" + type(ex).__name__, "ok": False})
    return out


def stat_cases(tier, seed):
    """sampling checks with the real generator: mean / std / correlation of log-returns within 6 standard errors"""
    rng = random.Random(sub_seed(seed, "stat"))
    out = []
    n = 3 if tier == "quick" else 20
    T = 20000
    for c in range(n):
        sim = Simulator(prng=random.Random(rng.randrange(2 ** 30)))
        f = sim.fundamentals
        vols = [rng.choice([0.01, 0.02]), rng.choice([0.005, 0.03])]
        drifts = [rng.choice([0.0, 0.0005]), rng.choice([-0.0003, 0.0])]
        rho = rng.choice([0.0, 0.6, -0.4])
        for m in range(2):
            f.add_market(market_id=m, initial=100.0, drift=drifts[m], volatility=vols[m])
        if rho:
            f.set_correlation(*((0, 1) if c % 2 == 0 else (1, 0)), rho)
        try:
            p = [np.asarray(f.get_fundamental_prices(market_id=m, times=range(T + 1))) for m in range(2)]
        except Exception as ex:  # noqa: BLE001
            out.append({"c": "stat", "what": "generation-raised-" + type(ex).__name__, "ok": False})
            continue
        r = [np.diff(np.log(x)) for x in p]
        for m in range(2):
            se_mean = vols[m] / math.sqrt(T)
            out.append({"c": "stat", "what": "mean", "ok": bool(abs(r[m].mean() - drifts[m]) <= 6 * se_mean)})
            se_std = vols[m] / math.sqrt(2 * T)
            out.append({"c": "stat", "what": "std", "ok": bool(abs(r[m].std() - vols[m]) <= 6 * se_std)})
            out.append({"c": "stat", "what": "positive", "ok": bool((p[m] > 0).all())})
            out.append({"c": "stat", "what": "initial", "ok": bool(p[m][0] == 100.0)})
        cc = float(np.corrcoef(r[0], r[1])[0, 1])
        out.append({"c": "stat", "what": "correlation", "ok": bool(abs(cc - rho) <= 6 * (1 - rho * rho) / math.sqrt(T) + 1e-9)})
    return out


def all_lines(tier, seed):
    rng = random.Random(sub_seed(seed, "fund-hist"))
    n = 120 if tier == "quick" else 2500
    lines = []
    for i in range(n):
        lines.append(history(rng.randrange(2 ** 40), zero_vol=(i % 4 == 0), chunk=(None if i % 3 else rng.choice([2, 3, 7]))))
    rc = ret_cases(tier, seed)
    for i in range(0, len(rc), 50):
        lines.append({"mode": "cases", "cs": rc[i:i + 50], "kind": "ret"})
    lines.append({"mode": "cases", "cs": stat_cases(tier, seed), "kind": "stat"})
    lines.append({"mode": "cases", "cs": late_cases(tier, seed), "kind": "late"})
    lp = late_partner_cases(tier, seed)
    for i in range(0, len(lp), 50):
        lines.append({"mode": "cases", "cs": lp[i:i + 50], "kind": "late-partner"})
    return lines
