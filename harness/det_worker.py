"""C07 worker: executes one (configuration, seed) in THIS process under a given environment mode and prints the
observable record as JSON (digests + a readable sample).  Run as: python -m harness.det_worker <job.json>"""
import contextlib
import copy
import hashlib
import io
import json
import random
import struct
import sys
import warnings

from .common import import_pams

import_pams()
import numpy as np  # noqa: E402
from pams.agents.fcn_agent import FCNAgent  # noqa: E402
from pams.logs.base import Logger  # noqa: E402
from pams.logs.market_step_loggers import MarketStepSaver  # noqa: E402
from pams.market import Market  # noqa: E402
from pams.events.base import EventABC, EventHook  # noqa: E402
from pams.runners.sequential import SequentialRunner  # noqa: E402


def fx(x):
    """exact rendering of a value (floats by their IEEE bit pattern)"""
    if isinstance(x, float):
        return "f" + struct.pack(">d", x).hex()
    if isinstance(x, (list, tuple)):
        return "[" + ",".join(fx(y) for y in x) + "]"
    if hasattr(x, "name") and hasattr(x, "kind_id"):
        return "K" + str(x.kind_id)
    return repr(x)


class DetLogger(MarketStepSaver):
    """the library's own MarketStepSaver (what it has stacked is part of the record of a run) with every other record added"""

    def __init__(self, rec):
        super().__init__()
        self.rec = rec

    def _r(self, *a):
        self.rec.append("|".join(fx(x) for x in a))

    def process_order_log(self, log):
        self._r("O", log.market_id, log.order_id, log.time, log.agent_id, log.is_buy, log.kind, log.volume, log.price, log.ttl)

    def process_cancel_log(self, log):
        self._r("C", log.market_id, log.order_id, log.cancel_time, log.agent_id, log.volume, log.price)

    def process_expiration_log(self, log):
        self._r("X", log.market_id, log.order_id, log.time, log.volume, log.price)

    def process_execution_log(self, log):
        self._r("E", log.market_id, log.time, log.buy_agent_id, log.sell_agent_id, log.buy_order_id, log.sell_order_id, log.price, log.volume)

    def process_market_step_begin_log(self, log):
        m = log.market
        self._r("SB", log.session.session_id, m.market_id, m.get_time(), m.get_market_price(), m.get_fundamental_price())

    def process_market_step_end_log(self, log):
        super().process_market_step_end_log(log)
        m = log.market
        self._r("SE", log.session.session_id, m.market_id, m.get_time(), m.get_market_price(), m.get_mid_price(),
                m.get_last_executed_price(), m.get_executed_volume(), m.get_best_buy_price(), m.get_best_sell_price())

    def process_session_begin_log(self, log):
        self._r("SSB", log.session.session_id)

    def process_session_end_log(self, log):
        self._r("SSE", log.session.session_id)

    def process_simulation_begin_log(self, log):
        self._r("SIMB")

    def process_simulation_end_log(self, log):
        self._r("SIME")


class UserDefinedFCNAgent(FCNAgent):       # the user_class sample's agent (notifications are part of the record)
    def submitted_order(self, log):
        REC.append("cbS|%d|%d|%d" % (self.agent_id, log.market_id, log.order_id))

    def executed_order(self, log):
        REC.append("cbE|%d|%d|%d|%d|%s" % (self.agent_id, log.market_id, log.buy_order_id, log.sell_order_id, fx(log.price)))


class ExtendedMarket(Market):              # the market_share sample's market class
    def setup(self, settings, *args, **kwargs):
        super().setup(settings, *args, **kwargs)
        if "tradeVolume" in settings:
            if not isinstance(settings["tradeVolume"], int):
                raise ValueError("tradeVolume must be int")
            self._executed_volumes = [int(settings["tradeVolume"])]


class DetEvent(EventABC):
    """a user-written event hooked on everything: what it is told is part of the observable record of a run"""

    def hook_registration(self):
        hooks = [EventHook(event=self, hook_type=t, is_before=b) for t in ("order", "cancel", "session", "market") for b in (True, False)]
        hooks.append(EventHook(event=self, hook_type="execution", is_before=False))
        return hooks

    def hooked_before_order(self, simulator, order):
        REC.append("ev|bo|%d|%d" % (order.market_id, order.agent_id))

    def hooked_after_order(self, simulator, order_log):
        REC.append("ev|ao|%d|%d|%d" % (order_log.market_id, order_log.order_id, order_log.time))

    def hooked_before_cancel(self, simulator, cancel):
        REC.append("ev|bc|%d|%d" % (cancel.order.market_id, cancel.order.order_id))

    def hooked_after_cancel(self, simulator, cancel_log):
        REC.append("ev|ac|%d|%d|%d" % (cancel_log.market_id, cancel_log.order_id, cancel_log.cancel_time))

    def hooked_after_execution(self, simulator, execution_log):
        REC.append("ev|ae|%d|%d|%d|%d" % (execution_log.market_id, execution_log.buy_order_id, execution_log.sell_order_id, execution_log.time))

    def hooked_before_session(self, simulator, session):
        REC.append("ev|bs|%d" % session.session_id)

    def hooked_after_session(self, simulator, session):
        REC.append("ev|as|%d" % session.session_id)

    def hooked_before_step_for_market(self, simulator, market):
        REC.append("ev|bm|%d|%d|%s" % (market.market_id, market.get_time(), fx(market.get_market_price())))

    def hooked_after_step_for_market(self, simulator, market):
        REC.append("ev|am|%d|%d|%s" % (market.market_id, market.get_time(), fx(market.get_market_price())))


REC = []
NOT_FROM_LOGGER = ("cbS|", "cbE|", "ev|", "series|", "hold|")


def run_once(cfg, seed, rec, with_logger=True):
    global REC
    REC = rec
    out = io.StringIO()
    with contextlib.redirect_stdout(out), warnings.catch_warnings():
        warnings.simplefilter("ignore")
        runner = SequentialRunner(settings=cfg, prng=random.Random(seed), logger=DetLogger(rec) if with_logger else None)
        runner.class_register(UserDefinedFCNAgent)
        runner.class_register(ExtendedMarket)
        runner.class_register(DetEvent)
        runner.main()
    sim = runner.simulator
    for m in sim.markets:
        rec.append("series|%d|%s|%s|%s" % (m.market_id, fx(m.get_market_prices()), fx(m.get_fundamental_prices()), fx(m.get_executed_volumes())))
    for a in sim.agents:
        rec.append("hold|%d|%s|%s" % (a.agent_id, fx(float(a.cash_amount)), fx(sorted(a.asset_volumes.items()))))
    if with_logger:
        saved = runner.logger.market_step_logs
        rec.append("L-saver|%d|%s" % (len(saved), fx([[d["market_time"], d["market_id"], d["market_price"]] for d in saved[:3] + saved[-3:]])))


def run_shadowed():
    """an earlier run in this process registered OTHER classes under the names the measured run registers (a notebook cell
    edited and run again): what a name resolves to is decided by the run's own registrations"""
    def hook_registration(self):
        return [EventHook(event=self, hook_type="market", is_before=True)]

    def hooked_before_step_for_market(self, simulator, market):
        REC.append("evSHADOW|%d" % market.market_id)
    shadow_event = type("DetEvent", (EventABC,), {"hook_registration": hook_registration,
                                                   "hooked_before_step_for_market": hooked_before_step_for_market})
    shadow_agent = type("UserDefinedFCNAgent", (FCNAgent,), {"submitted_order": lambda self, log: REC.append("cbSHADOW")})
    cfg = other_config()
    cfg["A"]["class"] = "UserDefinedFCNAgent"
    cfg["UE"] = {"class": "DetEvent"}
    cfg["simulation"]["sessions"][0]["events"] = ["UE"]
    global REC
    REC = []
    out = io.StringIO()
    with contextlib.redirect_stdout(out), warnings.catch_warnings():
        warnings.simplefilter("ignore")
        runner = SequentialRunner(settings=cfg, prng=random.Random(6), logger=None)
        runner.class_register(shadow_agent)
        runner.class_register(shadow_event)
        runner.main()


def other_config():
    return {"simulation": {"markets": ["M"], "agents": ["A"], "sessions": [
        {"sessionName": 0, "iterationSteps": 15, "withOrderPlacement": True, "withOrderExecution": True, "withPrint": False, "maxNormalOrders": 2}]},
        "M": {"class": "Market", "tickSize": 0.01, "marketPrice": 123.0, "fundamentalVolatility": 0.01},
        "A": {"class": "FCNAgent", "numAgents": 9, "markets": ["M"], "assetVolume": 10, "cashAmount": 1000, "fundamentalWeight": {"expon": [1.0]},
              "chartWeight": {"expon": [0.5]}, "noiseWeight": {"expon": [1.0]}, "noiseScale": 0.001, "timeWindowSize": [5, 20], "orderMargin": [0.0, 0.1]}}


def variant_of(cfg):
    """the same markets, agents and sessions with the fundamental correlations toggled and other endowments: whatever the
    earlier run leaves behind in the process (caches, class-level state) must not leak into the next one"""
    v = copy.deepcopy(cfg)
    sim = v["simulation"]
    pairs = sim.get("fundamentalCorrelations", {}).get("pairwise", [])
    if pairs:
        sim["fundamentalCorrelations"] = {"pairwise": []}
    else:
        vol = [n for n in sim["markets"] if isinstance(v.get(n), dict) and float(v[n].get("fundamentalVolatility", 0.0)) > 0.0
               and "numMarkets" not in v[n] and "from" not in v[n]]
        if len(vol) >= 2:
            sim["fundamentalCorrelations"] = {"pairwise": [[vol[0], vol[1], 0.8]]}
    for s in sim["sessions"]:
        s["iterationSteps"] = min(int(s["iterationSteps"]), 12)
    return v


def main():
    job = json.load(open(sys.argv[1]))
    cfg, seed, mode = job["cfg"], job["seed"], job["mode"]
    smut = False
    if mode == "perturbed":
        # global generators in a different state, and a DIFFERENT run executed first in this process
        random.seed(987654321)
        np.random.seed(42)
        [random.random() for _ in range(1000)]
        np.random.standard_normal(100)
        run_once(other_config(), 5, [])
        run_shadowed()
        try:
            run_once(variant_of(cfg), seed + 1, [])
        except Exception:  # noqa: BLE001 - the variant is only there to leave state behind
            pass
        random.random()
    rec = []
    settings = copy.deepcopy(cfg)
    before = json.dumps(settings, sort_keys=True)
    run_once(settings, seed, rec)
    smut = json.dumps(settings, sort_keys=True) != before
    rec2 = None
    if mode == "nologger":
        # the same configuration and seed WITHOUT a logger (the runner's default): everything that does not come from the logger
        # - notifications of user agents and user events, price series, holdings - is the same
        rec2 = []
        run_once(copy.deepcopy(cfg), seed, rec2, with_logger=False)
        rec = [x for x in rec if x.startswith(NOT_FROM_LOGGER)]
    if mode == "twice":
        rec2 = []
        run_once(settings, seed, rec2)             # the SAME settings object again
        smut = smut or json.dumps(settings, sort_keys=True) != before
    def dig(r):
        return [int.from_bytes(hashlib.sha1(x.encode()).digest()[:3], "big") for x in r]
    out = {"digests": dig(rec), "n": len(rec), "smut": smut, "sample": rec[:3] + rec[-2:]}
    if rec2 is not None:
        out["digests2"] = dig(rec2)
    out["full"] = hashlib.sha1("\n".join(rec).encode()).hexdigest()
    if job.get("keep"):
        out["rec"] = rec
    print(json.dumps(out))


if __name__ == "__main__":
    main()
