"""Regenerates /verif/MANIFEST.json from the table below (run by hand after adding a property)."""
import json, os, sys
sys.path.insert(0, os.path.dirname(os.path.dirname(os.path.abspath(__file__))))
from harness.main import GROUP_OF

LEVEL = {
 "C01": ("model_checking", "TLC proves on every reachable book of the bounded PamsMarket model that the transcribed matching algorithm (RefMatch) satisfies the C01 predicates (limits honoured, one price per round, price of the earlier order of the last pair); the same predicates are then evaluated by TLC on the fills REPORTED BY THE REAL Market for random histories, TLC-generated behaviours replayed into the code, permutations and grids (TraceBook). Bounded exhaustive design + per-execution conformance is the right level for a property quantified over all histories.", "5 C01"),
 "C02": ("model_checking", "PamsOrder lemmas (strict total order agreeing with the ranking) checked by TLC over a finite universe and bound to the real comparison operators by an exhaustive pair table (TraceCmp); priority of fills (C02ok) and best-order maintenance checked by TLC on every event of every recorded history of the real Market, including all arrival orders of order multisets.", "5 C02"),
 "C03": ("model_checking", "TLC: the reference round leaves no executable pair and trips none of the three assertion points of _execution on every reachable book of the bounded model (market orders on both sides included); on recorded histories the C03 post-condition is evaluated on the model book after applying the reported fills and any exception escaping a round is a verdict.", "5 C03"),
 "C04": ("model_checking", "TLC: accounting identity, lifetime (leaves exactly when the clock passes t0+ttl), fills only to resting non-terminal orders, on every reachable state; on recorded histories the identity is closed with the volumes REPORTED by the code (cancel/expiry records, Order.volume held by the submitter), expiry sets are compared at every tick and negative scenarios (resubmission, foreign market) must be rejected.", "5 C04"),
 "C08": ("model_checking", "TLC: the market-price / mid / statistics state machine transcribed from market.py satisfies the sentences of C08 as action properties (C08Step, StatsInv) on every step of the bounded model incl. switches of the running flag; on recorded histories every getter-visible quantity (best prices, depth, mid, last, market price, volume, turnover, counts, VWAP) is compared after every event.", "5 C08"),
 "C19": ("model_checking", "TLC checks the C19 lemmas on the whole tick grid (TableTick: 12288 cases) and in PamsMarket (C19Step); the same grid is driven through the real Market._add_order and every accepted price is judged by the C19 clauses in TraceBook (exact for dyadic ticks; rational side conditions with the ulp slack the property grants for decimal ticks).", "5 C19"),
 "C05": ("model_checking", "PamsRunner (TLC, all schedules of a bounded population incl. self-trades): conservation and holdings-only-by-fills invariants. TraceLedger (TLC) folds the endowment with the fills reported by the real matching rounds and compares it with EVERY snapshot of all holdings taken by the probes (after _update_agents_for_execution, in every callback, at every step end) on recorded runs of the real SequentialRunner over random configurations.", "5 C05"),
 "C06": ("model_checking", "PamsRunner: LockStep, IndexAfterComponents, ClockIsStepCount, SkewAtMostOne on every reachable state; PamsMarket: HistoryImmutable, ClockStep. TraceClock validates all market clocks at every step begin/end record, clock step and session boundary of recorded runs (incl. runs crossing the 100-step chunks); TraceBook checks on the same runs that the eight series of past times never change (interned rows, prefix check) and that queries for the future are refused for all 17 accessors.", "5 C06"),
 "C09": ("model_checking", "PamsRunner explores every schedule (activation orders, batch orders, gate draws, agent programs) of a bounded population and session list and checks the sentences of C09 as invariants / action properties; TraceSched evaluates the same sentences on recorded runs (placement / execution switches, at-most-once, caps, rate 0 / 1, completeness of collection) and TraceBook the behavioural round-follows clause on the per-market books.", "5 C09"),
 "C10": ("model_checking", "PamsRunner: logger queue invariants (exactly once, in order, flushed at boundaries). TraceLog builds the ground truth of accepted orders / cancels / fills / expiries from the market probes and requires the deliveries to a recording Logger to be exactly that sequence (expiries of one step in any order), with equal fields, complete at every session boundary, step records synchronous. PamsLogger models the Logger API itself (write / bulk / direct / flush, dispatch by record class); its behaviours are replayed into the real Logger and validated by TraceLogger.", "5 C10"),
 "C11": ("model_checking", "TraceLedger keeps the bag of callbacks owed (owner per accepted order / cancel; buyer and seller per fill) and checks every callback observed in scripted agents against it, after holdings of the whole round (callback snapshot = post-round ledger); the bag must be empty at the end. PamsRunner supplies the schedules (self-trades, many fills) exhaustively for small populations.", "5 C11"),
 "C13": ("model_checking", "TraceHooks derives, from the EventHook objects actually registered, the calls each occurrence (order / cancel before+after, fill, session before+after, market step before+after) owes and requires the recorded calls of probe events to be exactly those - times, class / instance filters, before-hooks before the effect, alterations by before-hooks taking effect; the same run without a logger must make the same calls. PamsHooks models the registry (_add_event, the nine _trigger_event_* functions); TLC checks exactly-once on every bounded registry history, its behaviours are replayed into the real Simulator and validated by TraceHookReg.", "5 C13"),
 "C14": ("model_checking", "TableEvents (TLC) checks the shock / mistake-price arithmetic over a grid. TraceEvents (TLC) follows, on recorded runs in exact configurations, the fundamental of every market at every step begin and clock step against the configured shocks (target only, window only, magnitude), and compares every accepted order with what the scripted agent returned: exactly the first order to the target at the trigger time must be the configured mistake order, nothing else may be rewritten, disabled shocks do nothing.", "5 C14"),
 "C15": ("model_checking", "TableEvents (TLC): clip lemmas over a grid (inside unchanged, outside into the band, band widened by one tick after rounding). TraceEvents (TLC): every acceptance on recorded runs with price limit rules - accepted price = tick rounding of the clipped request on targets (reference = the market's time-0 price as read when the hook runs), unchanged on non-targets, market orders unchanged, trades inside the widened band, a rejected non-target order is a violation.", "5 C15"),
 "C16": ("model_checking", "PamsHalt (TLC): the state machine of the repaired rule for several rules / targets / sessions satisfies NoFillWithoutExec, NoCrash, HaltRespected, Resumed, SwitchRestored, StoppedOnlyByHalt; the as-found design is kept as a configuration that TLC must reject. TraceEvents (TLC) predicts from the reported fills when each target market must stop and resume and compares Market.is_running and the session switch at every step begin / end and acceptance; TraceBook: no fill on a market that is not running.", "5 C16"),
 "C17": ("model_checking", "TableEvents (TLC): weighted-sum lemmas. TraceEvents (TLC): at every step begin / end the index value cross-multiplied with the share total equals the share-weighted sum of the component market prices, and at every clock step the index fundamental equals the weighted component fundamentals for the new time (exact configurations; a harness side condition with relative 1e-12 covers the float division).", "5 C17"),
 "C18": ("model_checking", "PamsConfig transcribes the expansion rules as pure operators; TableConfig (TLC) checks the lemmas of Extend on EVERY inheritance graph over three names, a missing parent and two keys (72000 cases: chains, self / 2 / 3-cycles, missing parents, excluded keys). The same grids are run through the real json_extends, SequentialRunner._setup (counts, inclusive ranges incl. length 1 and 2, prefixes, inheritance, accessible markets), Session.setup (legacy keys), JsonRandom (every value shape, exact values with a stub generator, support with the real one) and find_class (built-in, registered, duplicate, unknown names); TraceConfig (TLC) compares every recorded outcome with the model.", "5 C18"),
 "C07": ("exploration", "C07 is a hyperproperty (two runs of one (configuration, seed) agree). The product specification TraceDet (TLC) steps through pairs of complete observable records - every logger delivery with floats by bit pattern, user-agent notifications, price series, final holdings - and names the first difference; the pairs come from fresh processes with different PYTHONHASHSEED, a process whose global random / numpy.random state was perturbed and that ran a different simulation first, and two runs with the same settings object (which must stay unmodified). Configurations: all sample configurations (shortened) and generated ones with every built-in agent, market and event type and correlated fundamentals. TLC is the comparator here, not an explorer: exploration is the honest level.", "5 C07"),
 "C12": ("model_checking", "PamsFundamentals (TLC): the generation discipline over value versions - prefix kept on regeneration, a change or shock at t rewrites nothing before t. TraceFund (TLC) replays that discipline along histories of gets (incl. chunk boundaries and small chunk sizes), parameter changes and shocks on the real Fundamentals / Market.change_fundamental_price, with the set of bit-exactly changed indices logged after every operation; the return law r = diag(vol) L z + drift is checked by TLC in rationals (L L^T = corr for Pythagorean rows) against log-returns observed with the NumPy generator replaced by chosen draws; zero-volatility closed form, positivity and 6-standard-error sampling checks are harness side conditions.", "5 C12"),
 "C20": ("model_checking", "PamsAgents states the decision rules in scaled integers (sign of the FCN expected log-return on a geometric price grid, market-maker quotes, arbitrage trigger and basket); TableAgents (TLC) checks their lemmas over a grid; real FCN / MarketShareFCN / MarketMaker / Arbitrage agents are put on real markets brought to tabulated states and TraceAgents (TLC) compares the returned orders (count, side, market, volume, lifetime, owner, accessibility, exact quotes) with the rules; the FCN price is compared with an independent evaluation of the documented formula (side condition).", "5 C20"),
}
NOTE = {
 "C01": "Trusted: TLC, the Json module, the probes (harness/book_session.py) that project floats to integer units exactly (dyadic ticks) or by rounding (decimal ticks). Bounds: design model constants in spec/MC_PamsMarket_*.cfg; histories of 30-120 operations.",
}
DEFAULT_NOTE = "Trusted: TLC 1.8, CommunityModules Json, the harness projection of floats to integer units (asserted exact for dyadic ticks). Claims hold for the bounded design models (constants in the .cfg files) and for every recorded execution; nothing beyond."
TECH = {
 "C01": "TLA+ design model (TLC exhaustive) + TLC trace validation of real Market executions + TLC behaviours replayed into the code",
 "C02": "TLA+ total-order lemmas (TLC) + exhaustive comparison table validated by TLC + trace validation incl. arrival-order permutations",
 "C03": "TLA+ design model (TLC exhaustive) + TLC trace validation of real Market executions",
 "C04": "TLA+ accounting/lifetime invariants (TLC exhaustive) + TLC trace validation with reported volumes, clock jumps and negative scenarios (market level and run level: TraceOwner)",
 "C08": "TLA+ action properties on the price/statistics state machine (TLC) + TLC trace validation of every getter after every event",
 "C19": "TLA+ decision table over the tick grid (TLC) replayed into Market._add_order + TLC trace validation",
 "C05": "TLA+ ledger fold validated by TLC on recorded runs + TLC exploration of all schedules (PamsRunner)",
 "C06": "TLA+ clock/history invariants (TLC) + TLC trace validation of clocks, history prefixes and future probes on recorded runs",
 "C09": "TLA+ scheduler model (TLC, all schedules) + TLC trace validation of recorded consultations, acceptances and rounds",
 "C10": "TLA+ logger-queue models (PamsRunner, PamsLogger; TLC exhaustive) + PamsLogger behaviours replayed into the real Logger + TLC trace validation of deliveries against ground truth from market probes",
 "C11": "TLA+ owed-callback bag validated by TLC on recorded runs with scripted agents",
 "C13": "TLA+ hook registry model PamsHooks (TLC exhaustive) replayed into the real Simulator + TLC trace validation of recorded hook calls (runs with and without a logger, registry-level histories)",
 "C14": "TLA+ event arithmetic lemmas (TLC) + TLC trace validation of fundamentals and accepted orders against configured shocks",
 "C15": "TLA+ clip lemmas (TLC) + TLC trace validation of every acceptance and trade in runs with price limit rules",
 "C16": "TLA+ halt-rule state machine (TLC, repaired design accepted / as-found design rejected) + TLC trace validation of running flags and fills",
 "C17": "TLA+ weighted-sum lemmas (TLC) + TLC trace validation of index value and index fundamental against components",
 "C18": "TLA+ decision tables (TLC over all small inheritance graphs) replayed into the real configuration code, outcomes validated by TLC",
 "C07": "differential execution under perturbed environments; TLA+ product specification (TLC) as event-by-event comparator",
 "C12": "TLA+ version-model of regeneration (TLC) + TLC validation of change sets and of the rational return law against the real Fundamentals",
 "C20": "TLA+ decision tables (TLC) replayed into real agent objects on real markets, returned orders validated by TLC",
}

def main():
    checks = []
    for pid in sorted(GROUP_OF):
        cat, text, ref = LEVEL[pid]
        checks.append({
            "property_id": pid,
            "quick_cmd": "./check %s --tier quick" % pid,
            "thorough_cmd": "./check %s --tier thorough" % pid,
            "evidence_file": "/verif/evidence/%s.json" % pid,
            "replay_cmd_template": "./check %s --replay {path}" % pid,
            "engine": "tlc-" + GROUP_OF[pid],
            "level_claimed": {"category": cat, "text": text, "design_ref": "DESIGN.md section " + ref},
            "level_note": NOTE.get(pid, DEFAULT_NOTE),
            "technique": TECH[pid],
        })
    all_ids = [json.loads(l)["id"] for l in open(os.path.join(os.path.dirname(__file__), "..", "properties.jsonl"))]
    na = [{"property_id": p, "reason": "check not built yet in this round (planned, see DESIGN.md section 5); not claimed until its TLA+ model and binding exist"}
          for p in all_ids if p not in GROUP_OF]
    m = {
        "version": 1,
        "setup_cmd": "./check setup",
        "hooks": {"guard": "PAMS_VERIF", "enable": "no source hooks: all probes are subclasses registered through public extension points (logger=, class_register, simulator_class=, prng=)",
                  "baseline_off_cmd": "cd /repo && /venv/bin/python -m pytest -ra -q -p no:cacheprovider --timeout=900 --continue-on-collection-errors",
                  "source_commits": [], "add_only": True},
        "engines": [
            {"name": "tlc-run", "path": "/verif/spec/PamsRunner.tla", "serves_properties": [p for p in sorted(GROUP_OF) if GROUP_OF[p] == "run"],
             "kind_free_text": "TLA+ run-level specification (PamsRunner, PamsLedger) checked by TLC; TraceLedger / TraceSched / TraceLog / TraceHooks / TraceClock / TraceBook validate runs of the real SequentialRunner recorded through probe subclasses"},
            {"name": "tlc-table", "path": "/verif/spec/PamsConfig.tla", "serves_properties": [p for p in sorted(GROUP_OF) if GROUP_OF[p] == "table"],
             "kind_free_text": "TLA+ decision tables (PamsConfig, TableConfig) enumerated by TLC; the same grids are replayed into the real functions and judged by TraceConfig"},
            {"name": "tlc-book", "path": "/verif/spec/PamsMarket.tla", "serves_properties": [p for p in sorted(GROUP_OF) if GROUP_OF[p] == "book"],
             "kind_free_text": "TLA+ specification of one market (PamsOrder, PamsBook, PamsMarketOps, PamsMarket) checked by TLC; TraceBook/TraceCmp validate executions of the real pams.market.Market; TLC -simulate behaviours are replayed into the code"},
        ],
        "checks": checks,
        "not_applicable": na,
        "notes": "Model-based verification with an explicit TLA+ specification (spec/), TLC for design models and for trace validation, conformance in both directions. See DESIGN.md.",
    }
    with open(os.path.join(os.path.dirname(__file__), "..", "MANIFEST.json"), "w") as f:
        json.dump(m, f, indent=1)
    print("wrote MANIFEST.json with", len(checks), "checks,", len(na), "not claimed")

if __name__ == "__main__":
    main()
