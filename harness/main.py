"""./check <property> [--tier quick|thorough] [--replay FILE] | setup | selftest

Exit 0: the property held on everything explored (known findings are printed as KNOWN-FINDING lines).
Exit 1: a violation not listed in known_findings.txt (a `VIOLATION property=<id> replay=<path>` line).
Exit 2: the machinery itself failed (TLC crash, missing verdicts, projection failure) - never a violation.
"""
import argparse
import json
import os
import shutil
import sys
import time
import traceback

from .common import MachineryError, REPLAYS, WORK, seed_from_env

GROUP_OF = {
    "C01": "book", "C02": "book", "C03": "book", "C04": "book", "C08": "book", "C19": "book",
    "C05": "run", "C06": "run", "C09": "run", "C10": "run", "C11": "run", "C13": "run",
    "C14": "run", "C15": "run", "C16": "run", "C17": "run",
    "C12": "table", "C18": "table", "C20": "table", "C07": "det",
}


def _group(name):
    if name == "book":
        from . import group_book
        return group_book
    if name == "run":
        from . import group_run
        return group_run
    if name == "det":
        from . import group_det
        return group_det
    if name == "table":
        from . import group_table
        return group_table
    raise MachineryError("no group " + name)


def cmd_setup():
    """Parse every specification module with SANY and check that pams is importable from /repo."""
    import subprocess
    from .common import SPEC, import_pams
    import_pams()
    bad = 0
    for f in sorted(os.listdir(SPEC)):
        if not f.endswith(".tla"):
            continue
        p = subprocess.run(["java", "-DTLA-Library=" + SPEC, "-cp",
                            "/opt/veriftools/tla/tla2tools.jar:/opt/veriftools/tla/CommunityModules-deps.jar",
                            "tla2sany.SANY", f], cwd=SPEC, stdout=subprocess.PIPE, stderr=subprocess.STDOUT, text=True)
        ok = p.returncode == 0 and "Semantic errors" not in p.stdout and "Parse Error" not in p.stdout \
            and "Could not parse" not in p.stdout and "Fatal errors" not in p.stdout
        print(("ok   " if ok else "FAIL ") + f)
        if not ok:
            bad += 1
            print(p.stdout[-1500:])
    return 2 if bad else 0


def main(argv=None):
    ap = argparse.ArgumentParser(prog="check")
    ap.add_argument("what")
    ap.add_argument("--tier", default=os.environ.get("VERIF_TIER", "quick"), choices=["quick", "thorough"])
    ap.add_argument("--replay", default=None)
    ap.add_argument("--no-evidence", action="store_true", help="scratch run (selftest): no evidence file, replays under .work")
    a = ap.parse_args(argv)
    if a.no_evidence:
        os.environ["VERIF_SCRATCH"] = "1"
        from . import common, judge as _j
        _j.REPLAYS = os.path.join(WORK, "replays-scratch")
        os.makedirs(_j.REPLAYS, exist_ok=True)
    os.makedirs(WORK, exist_ok=True)
    os.makedirs(REPLAYS, exist_ok=True)
    try:
        if a.what == "setup":
            return cmd_setup()
        if a.what == "selftest":
            from . import selftest
            return selftest.run(a.tier)
        prop = a.what
        if prop not in GROUP_OF:
            print("unknown property " + prop)
            return 2
        g = _group(GROUP_OF[prop])
        seed = seed_from_env()
        t0 = time.time()
        if a.replay:
            return g.replay(prop, a.replay)
        return g.check(prop, a.tier, seed, t0)
    except MachineryError as ex:
        print("MACHINERY-ERROR: %s" % ex)
        return 2
    except Exception:  # noqa: BLE001
        traceback.print_exc()
        print("MACHINERY-ERROR: unexpected exception in the harness")
        return 2


if __name__ == "__main__":
    sys.exit(main())
