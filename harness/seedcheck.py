"""Re-run the registered checks against every stored seeded change: python -m harness.seedcheck [prefix ...]
(applies seeded/<id>/patch.diff to /repo, runs the quick check(s) that detected it, ALWAYS reverts)."""
import glob
import json
import os
import subprocess
import sys

from .common import VERIF


def main():
    pref = sys.argv[1:]
    st = subprocess.run(["git", "-C", "/repo", "status", "--porcelain"], stdout=subprocess.PIPE, text=True).stdout.strip()
    if st:
        print("refusing: /repo has uncommitted changes")
        return 2
    bad = 0
    for d in sorted(glob.glob(os.path.join(VERIF, "seeded", "*"))):
        name = os.path.basename(d)
        if pref and not any(name.startswith(p) for p in pref):
            continue
        meta = json.load(open(os.path.join(d, "meta.json")))
        props = meta.get("detected_by") or [meta["property"]]
        p = subprocess.run(["git", "-C", "/repo", "apply", os.path.join(d, "patch.diff")], stdout=subprocess.PIPE, stderr=subprocess.STDOUT, text=True)
        if p.returncode != 0:
            print("%s: patch does not apply (%s)" % (name, p.stdout.strip()[:100]))
            bad += 1
            continue
        try:
            res = {}
            for prop in props[:1]:
                r = subprocess.run([os.path.join(VERIF, "check"), prop, "--tier", "quick", "--no-evidence"], cwd=VERIF,
                                   env=dict(os.environ, VERIF_TRACES_ONLY="1"), stdout=subprocess.PIPE, stderr=subprocess.STDOUT, text=True)
                clause = next((ln.strip() for ln in r.stdout.splitlines() if ln.startswith("  clause")), "")
                res[prop] = (r.returncode, clause)
        finally:
            subprocess.run(["git", "-C", "/repo", "checkout", "--", "."])
        ok = any(rc == 1 for rc, _ in res.values())
        if not ok:
            bad += 1
        print("%s: %s %s" % (name, "caught" if ok else "MISSED", res))
    print("seedcheck: %d not detected" % bad)
    return 1 if bad else 0


if __name__ == "__main__":
    sys.exit(main())
