"""C18: decision tables replayed into the real configuration code (json_extends, SequentialRunner._setup,
Session.setup, JsonRandom, find_class).  Cases are enumerated here on the same grids the TLA+ tables use;
the recorded outcomes are judged by TraceConfig (TLC)."""
import contextlib
import io
import itertools
import json
import math
import random
import sys
import threading
import warnings

from .common import import_pams, sub_seed

import_pams()
from pams.agents.base import Agent  # noqa: E402
from pams.events.base import EventABC  # noqa: E402
from pams.market import Market  # noqa: E402
from pams.runners.sequential import SequentialRunner  # noqa: E402
from pams.session import Session  # noqa: E402
from pams.simulator import Simulator  # noqa: E402
from pams.utils.class_finder import find_class  # noqa: E402
from pams.utils.json_extends import json_extends  # noqa: E402
from pams.utils.json_random import JsonRandom  # noqa: E402


class _Hang(BaseException):
    pass


def _call_with_timeout(fn, seconds=5.0, limit=300_000):
    """Runs fn under a budget of executed lines (sys.settrace): a call that does not terminate is cut off deterministically
    and reported as "hang" - no wall clock, no thread left spinning behind."""
    count = [0]

    def tracer(frame, event, arg):
        count[0] += 1
        if count[0] > limit:
            raise _Hang()
        return tracer
    old = sys.gettrace()
    sys.settrace(tracer)
    try:
        return ("ok", fn())
    except _Hang:
        return ("hang", None)
    except ValueError as ex:
        return ("ValueError", str(ex))
    except Exception as ex:  # noqa: BLE001
        return ("other-" + type(ex).__name__, str(ex))
    finally:
        sys.settrace(old)


# ------------------------------------------------------------------------------------------------ extends
PYVAL = {"a": {"expon": [1.0]}, "b": 0, "c": {"const": [2.0]}}      # falsy values and dict-valued (distribution) values
BACK = {repr(v): k for k, v in PYVAL.items()}


def extends_cases(tier, seed):
    """every graph on names a, b, c (+ missing parent zz), keys k1 k2 (quick: sampled), all start nodes"""
    names = ["a", "b", "c"]
    exts = ["", "a", "b", "c", "zz"]
    keysets = [[], ["k1"], ["k2"], ["k1", "k2"]]
    excls = [[], ["k1"], ["extends"]]
    grid = list(itertools.product(exts, exts, exts, keysets, keysets, keysets, names, excls))
    if tier == "quick":
        rng = random.Random(sub_seed(seed, "extends"))
        grid = rng.sample(grid, 4000)
    out = []
    for ea, eb, ec, ka, kb, kc, start, excl in grid:
        G = [{"name": n, "ext": e, "keys": [[k, n] for k in ks]} for n, e, ks in (("a", ea, ka), ("b", eb, kb), ("c", ec, kc))]
        whole = {}
        # the values the entries carry are the entry names in the model; in the real settings some of them are FALSY values
        # (0, empty string): an own or nearer value wins whatever its truth value
        for nd in G:
            d = {k: PYVAL[v] for k, v in nd["keys"]}
            if nd["ext"]:
                d["extends"] = nd["ext"]
            whole[nd["name"]] = d
        before = json.dumps(whole, sort_keys=True)
        st, res = _call_with_timeout(lambda: json_extends(whole_json=whole, parent_name=start, target_json=whole[start], excludes_fields=list(excl)))
        case = {"c": "ext", "G": G, "start": start, "excl": excl, "st": "ok", "kv": [], "intact": json.dumps(whole, sort_keys=True) == before}
        if st == "ok":
            case["kv"] = sorted([[k, BACK.get(repr(v), "?")] for k, v in res.items() if k != "extends"])
            if "extends" in res:
                case["st"] = "other-extends-key-left"
        elif st == "ValueError":
            case["st"] = "loop" if "loop" in res else ("missing" if "missing" in res else "other-ValueError")
        else:
            case["st"] = st
        out.append(case)
    return out


# ------------------------------------------------------------------------------------------------ setup: counts, ranges, names, access
class _A(Agent):
    def submit_orders(self, markets):
        return []


class _E(EventABC):
    """a user-written event class (registered with class_register like the agent class)"""

    def hook_registration(self):
        return []


def _decl_settings(d, key):
    if d[0] == "count":
        return {key: d[1]}
    if d[0] == "range":
        return {"from": d[1], "to": d[2]}
    return {}


def setup_cases(tier, seed):
    rng = random.Random(sub_seed(seed, "setup"))
    decl_pool = [["single"], ["count", 1], ["count", 2], ["count", 3], ["count", 5], ["range", 0, 0], ["range", 0, 1], ["range", 5, 6],
                 ["range", 2, 4], ["range", 7, 7], ["range", 10, 13], ["count", 0]]
    out = []
    n = 120 if tier == "quick" else 1500
    for i in range(n):
        mdecls = [rng.choice(decl_pool[:-1]) for _ in range(rng.randint(1, 3))]
        if i % 3 == 0:
            # a listed group that declares a count, followed by listed groups that may extend it
            mdecls = [["count", rng.choice([2, 3, 5])]] + [rng.choice(decl_pool[:-1]) for _ in range(rng.randint(1, 2))]
        adecls = [rng.choice(decl_pool) for _ in range(rng.randint(1, 3))]
        use_prefix = rng.random() < 0.3
        use_extends = rng.random() < 0.3
        cfg = {"simulation": {"markets": [], "agents": [], "sessions": [
            {"sessionName": 0, "iterationSteps": 1, "withOrderPlacement": True, "withOrderExecution": True, "withPrint": False}]}}
        if i % 2 == 0:
            cfg["UE"] = {"class": "_E"}                       # a user-registered EVENT class resolves like the others
            cfg["simulation"]["sessions"][0]["events"] = ["UE"]
        if use_extends:
            cfg["BaseM"] = {"class": "Market", "tickSize": 1.0, "marketPrice": 100.0, "from": 90, "to": 95}
            cfg["BaseA"] = {"class": "_A", "cashAmount": 100, "assetVolume": 1}
        lists = []
        chain = (i % 3 == 0) or rng.random() < 0.2   # later groups extend the FIRST listed group (a listed group as parent)
        if i % 3 == 0:
            use_extends = False
        eff = list(mdecls)
        for g, d in enumerate(mdecls):
            nm = "MG%d" % g
            s = {"extends": "BaseM"} if use_extends else {"class": "Market", "tickSize": 1.0, "marketPrice": 100.0}
            if chain and g > 0 and d[0] != "range":
                # the child inherits everything but from / to; a declared count of its own overrides the parent's
                s = {"extends": "MG0"}
                if d[0] == "count":
                    s.update(_decl_settings(d, "numMarkets"))
                elif mdecls[0][0] == "count":
                    eff[g] = mdecls[0]            # no declaration of its own: the parent's count is inherited
            else:
                s.update(_decl_settings(d, "numMarkets"))
            if use_prefix and rng.random() < 0.5 and not (chain and g == 0):
                s["prefix"] = "pm%d_" % g
            cfg[nm] = s
            cfg["simulation"]["markets"].append(nm)
        if i % 4 == 1 and not use_extends:
            # an index market group that is NOT the last market group: the markets declared after it still get fresh ids
            for g in range(len(mdecls)):
                cfg["MG%d" % g]["outstandingShares"] = 10
            comp = "MG0" if mdecls[0][0] == "single" else None
            if comp is not None and not (use_prefix and "prefix" in cfg["MG0"]):
                n0 = len(mdecls)
                cfg["MG%d" % n0] = {"class": "IndexMarket", "tickSize": 1.0, "marketPrice": 100.0, "markets": ["MG0"]}
                cfg["MG%d" % (n0 + 1)] = {"class": "Market", "tickSize": 1.0, "marketPrice": 100.0}
                cfg["simulation"]["markets"] += ["MG%d" % n0, "MG%d" % (n0 + 1)]
                mdecls = mdecls + [["single"], ["single"]]
                eff = eff + [["single"], ["single"]]
        for g, d in enumerate(adecls):
            nm = "AG%d" % g
            lst = sorted(rng.sample(range(len(mdecls)), rng.randint(1, len(mdecls))))
            lists.append(lst)
            s = {"extends": "BaseA"} if use_extends else {"class": "_A", "cashAmount": 100, "assetVolume": 1}
            s["markets"] = ["MG%d" % x for x in lst]
            s.update(_decl_settings(d, "numAgents"))
            cfg[nm] = s
            cfg["simulation"]["agents"].append(nm)
        for kind, decls, groups in (("markets", mdecls, "markets_group_name2market"), ("agents", adecls, "agents_group_name2agent")):
            pass
        mdecls = eff
        case_m = {"c": "setup", "what": "markets", "decls": mdecls, "out": "ok", "ids": [], "names": []}
        case_a = {"c": "setup", "what": "agents", "decls": adecls, "out": "ok", "ids": [], "names": []}
        case_x = {"c": "access", "lists": lists, "acc": [], "mids": []}
        try:
            with warnings.catch_warnings():
                warnings.simplefilter("ignore")
                r = SequentialRunner(settings=cfg, prng=random.Random(i))
                r.class_register(_A)
                r.class_register(_E)
                st, msg = _call_with_timeout(r._setup, limit=3_000_000)
                if st == "hang":
                    raise TimeoutError("setup does not terminate")
                if st != "ok":
                    raise ValueError(msg)
            sim = r.simulator
            for g in range(len(mdecls)):
                ms = sim.markets_group_name2market.get("MG%d" % g, [])
                case_m["ids"].append([int(m.market_id) for m in ms])
                case_m["names"].append([m.name for m in ms])
                case_x["mids"].append([int(m.market_id) for m in ms])
            for g in range(len(adecls)):
                ags = sim.agents_group_name2agent.get("AG%d" % g, [])
                case_a["ids"].append([int(a.agent_id) for a in ags])
                case_a["names"].append([a.name for a in ags])
                accs = sorted({int(m.market_id) for a in ags for m in sim.markets if a.is_market_accessible(m.market_id)})
                # every agent of the group must see the same set; record the first agent's (empty group: expected set)
                same = all(sorted(int(m.market_id) for m in sim.markets if a.is_market_accessible(m.market_id)) == accs for a in ags)
                case_x["acc"].append(accs if (ags and same) else (sorted(x for gi in lists[g] for x in case_x["mids"][gi]) if not ags else [-1]))
            out.extend([case_m, case_a, case_x])
            # the SAME settings object configures a second runner: resolving inheritance must not have altered what the
            # groups declare (same sizes, ids, names as the declarations say)
            with warnings.catch_warnings():
                warnings.simplefilter("ignore")
                r2 = SequentialRunner(settings=cfg, prng=random.Random(i))
                r2.class_register(_A)
                r2.class_register(_E)
                st, msg = _call_with_timeout(r2._setup, limit=3_000_000)
                if st == "hang":
                    raise TimeoutError("setup does not terminate")
                if st != "ok":
                    raise ValueError(msg)
            sim2 = r2.simulator
            for what, decls, groups, pre in (("markets", mdecls, sim2.markets_group_name2market, "MG"), ("agents", adecls, sim2.agents_group_name2agent, "AG")):
                c2 = {"c": "setup", "what": what + "-second-use-of-settings", "decls": decls, "out": "ok", "ids": [], "names": []}
                for g in range(len(decls)):
                    xs = groups.get("%s%d" % (pre, g), [])
                    c2["ids"].append([int(x.market_id if what == "markets" else x.agent_id) for x in xs])
                    c2["names"].append([x.name for x in xs])
                out.append(c2)
        except Exception as ex:  # noqa: BLE001
            out.append({"c": "setup", "what": "config", "decls": mdecls + adecls, "out": type(ex).__name__,
                        "ids": [[] for _ in mdecls + adecls], "names": [[] for _ in mdecls + adecls], "msg": str(ex)[:100]})
    return out


# ------------------------------------------------------------------------------------------------ JsonRandom
class _StubRandom(random.Random):
    """random() returns k/8, gauss(mu, sigma) returns mu + sigma * k/8 (exact for small integers)"""

    def __init__(self, k):
        super().__init__(0)
        self.k = k

    def random(self):
        return self.k / 8.0

    def gauss(self, mu=0.0, sigma=1.0):
        return mu + sigma * (self.k / 8.0)


def jr_cases(tier, seed):
    rng = random.Random(sub_seed(seed, "jr"))
    out = []
    shapes = []
    for a in (0, 1, 5, -3):
        for b in (0, 2, 7, 5):
            shapes.append((["number", 0], a, a, a))
            shapes.append((["list", 2], a, b, [a, b]))
            shapes.append((["list", 1], a, b, [a]))
            shapes.append((["list", 3], a, b, [a, b, a]))
            shapes.append((["const", 1], a, a, {"const": [a]}))
            shapes.append((["const", 2], a, b, {"const": [a, b]}))
            shapes.append((["const-notlist", 0], a, b, {"const": a}))
            shapes.append((["uniform", 2], a, b, {"uniform": [a, b]}))
            shapes.append((["uniform", 1], a, b, {"uniform": [a]}))
            shapes.append((["uniform-notlist", 0], a, b, {"uniform": a}))
            shapes.append((["normal", 2], a, abs(b), {"normal": [a, abs(b)]}))
            shapes.append((["normal", 3], a, b, {"normal": [a, b, a]}))
            shapes.append((["expon", 1], abs(a) + 1, 0, {"expon": [abs(a) + 1]}))
            shapes.append((["expon", 2], a, b, {"expon": [a, b]}))
            shapes.append((["unknown", 1], a, b, {"poisson": [a]}))
            shapes.append((["twokeys", 2], a, b, {"const": [a], "uniform": [a, b]}))
    for shape, a, b, val in shapes:
        for k in (0, 1, 4, 7):
            if shape[0] == "expon" and k == 0:
                continue                      # -log(0): outside the support of random()
            case = {"c": "jr", "shape": shape, "a": a, "b": b, "k": k, "res": "ok", "x64": 0, "ok": True, "sup": True}
            try:
                x = JsonRandom(prng=_StubRandom(k)).random(json_value=val)
                x64 = x * 64
                if shape[0] == "expon":
                    exp = a * -math.log(k / 8.0) if k else float("inf")
                    case["ok"] = bool(x == exp or abs(x - exp) <= 1e-12 * abs(exp))
                    case["sup"] = bool(x >= 0)
                else:
                    case["x64"] = int(x64) if x64 == int(x64) else 123456789
            except ValueError:
                case["res"] = "error"
            except Exception as ex:  # noqa: BLE001
                case["res"] = "other-" + type(ex).__name__
            out.append(case)
    # support with the REAL generator: uniform in [a, b), exponential >= 0
    n = 200 if tier == "quick" else 5000
    for i in range(n):
        a = rng.randint(-5, 5)
        b = a + rng.randint(1, 6)
        g = random.Random(rng.randrange(2 ** 30))
        xs = [JsonRandom(prng=g).random(json_value=[a, b]) for _ in range(50)]
        es = [JsonRandom(prng=g).random(json_value={"expon": [b - a]}) for _ in range(50)]
        out.append({"c": "jr", "shape": ["uniform-real", 2], "a": a, "b": b, "k": 0, "res": "ok", "x64": 0, "ok": True,
                    "sup": bool(all(a <= x < b for x in xs) and all(e >= 0 for e in es))})
    return out


# ------------------------------------------------------------------------------------------------ class lookup
class FCNAgent:           # a user class that shadows a built-in name (must make the lookup ambiguous)
    pass


class UserThing:
    pass


class UserThing2:
    pass


UserThingDup = type("UserThing", (), {})
BUILTIN = ["Market", "IndexMarket", "FCNAgent", "ArbitrageAgent", "MarketMakerAgent", "MarketShareFCNAgent", "TestAgent",
           "HighFrequencyAgent", "Agent", "FundamentalPriceShock", "OrderMistakeShock", "PriceLimitRule", "TradingHaltRule",
           "Logger", "MarketStepPrintLogger", "MarketStepSaver", "Session", "Simulator", "Order", "Cancel", "Fundamentals",
           "SequentialRunner", "EventABC", "EventHook", "OrderBook"]


def cls_cases():
    import pams
    import pams.agents
    import pams.events
    import pams.logs
    out = []

    def expected_builtin(name):
        for mod in (pams, pams.agents, pams.events, pams.logs):
            if hasattr(mod, name):
                return getattr(mod, name)
        return None
    regs = [[], [UserThing], [UserThing, UserThing2], [UserThing, UserThingDup], [FCNAgent], [UserThing2]]
    for name in BUILTIN + ["UserThing", "UserThing2", "NoSuchClass", "Nope"]:
        for reg in regs:
            nb = 1 if name in BUILTIN else 0
            nr = sum(1 for c in reg if c.__name__ == name)
            case = {"c": "cls", "name": name, "nb": nb, "nr": nr, "res": "ok", "right": True}
            try:
                # the classes reach the lookup the way a user's do: through Runner.class_register
                rn = SequentialRunner(settings={"simulation": {"markets": [], "agents": [], "sessions": []}}, prng=random.Random(0))
                for c in reg:
                    rn.class_register(c)
                got = find_class(name=name, optional_class_list=list(rn.registered_classes))
                want = expected_builtin(name) if nb else next((c for c in reg if c.__name__ == name), None)
                case["right"] = bool(got is want)
            except AttributeError:
                case["res"] = "error"
            except Exception as ex:  # noqa: BLE001
                case["res"] = "other-" + type(ex).__name__
            out.append(case)
    return out


# ------------------------------------------------------------------------------------------------ legacy keys
def _session_fields(settings):
    s = Session(session_id=0, prng=random.Random(0), session_start_time=0, simulator=Simulator(prng=random.Random(0)), name="s")
    base = {"iterationSteps": 3, "withOrderPlacement": True, "withOrderExecution": True, "withPrint": False}
    base.update(settings)
    with warnings.catch_warnings():
        warnings.simplefilter("ignore")
        s.setup(settings=base)
    return [int(s.iteration_steps), bool(s.with_order_placement), bool(s.with_order_execution), int(s.max_normal_orders * 64),
            int(s.max_high_frequency_orders * 64), int(s.high_frequency_submission_rate * 64)]


def _runner_session_fields(sessions):
    """the sessions of ONE run, configured through the runner: [[cap x 64, rate x 64] per session] (or the exception name)"""
    cfg = {"simulation": {"markets": ["M"], "agents": [], "sessions": [
        dict({"sessionName": k, "iterationSteps": 2, "withOrderPlacement": True, "withOrderExecution": True, "withPrint": False}, **x)
        for k, x in enumerate(sessions)]}, "M": {"class": "Market", "tickSize": 1.0, "marketPrice": 100.0}}
    try:
        with warnings.catch_warnings():
            warnings.simplefilter("ignore")
            rn = SequentialRunner(settings=cfg, prng=random.Random(0))
            rn._setup()
        return [[int(x.max_high_frequency_orders * 64), int(x.high_frequency_submission_rate * 64)] for x in rn.simulator.sessions]
    except Exception as ex:  # noqa: BLE001
        return [[-1, -1, type(ex).__name__] for _ in sessions]


def legacy_cases():
    out = []
    for v in (0, 1, 3, 7):
        out.append({"c": "legacy", "key": "maxHifreqOrders", "old": _session_fields({"maxHifreqOrders": v}),
                    "new": _session_fields({"maxHighFrequencyOrders": v}), "want": [v * 64, 64]})
    for v in (0.0, 0.25, 0.5, 1.0):
        out.append({"c": "legacy", "key": "hifreqSubmitRate", "old": _session_fields({"hifreqSubmitRate": v}),
                    "new": _session_fields({"highFrequencySubmitRate": v}), "want": [64, int(v * 64)]})
    # several sessions of one run, each with its own values under the deprecated spellings (what the runner configures for
    # every one of them is what the configuration says, whichever session comes first)
    for caps, rates in (((0, 2), (0.5, 0.0)), ((3, 0, 2), (1.0, 0.25, 0.5)), ((2, 2), (0.0, 0.0)), ((1, 5, 0), (0.25, 1.0, 0.0))):
        old = _runner_session_fields([{"maxHifreqOrders": c, "hifreqSubmitRate": r} for c, r in zip(caps, rates)])
        new = _runner_session_fields([{"maxHighFrequencyOrders": c, "highFrequencySubmitRate": r} for c, r in zip(caps, rates)])
        for k, (c, r) in enumerate(zip(caps, rates)):
            out.append({"c": "legacy", "key": "session-%d-of-a-run" % k, "old": [0, 0, 0, 0] + old[k][:2], "new": [0, 0, 0, 0] + new[k][:2],
                        "want": [c * 64, int(r * 64)]})
    return out


class _Fixed(random.Random):
    def __init__(self, x):
        super().__init__(0)
        self.x = x

    def random(self):
        return self.x


def win_cases():
    """integer parameters drawn from a range ([a, b] = uniform over [a, b)) by a built-in agent stay inside the range, also
    when the draw is next to its upper end"""
    from pams.agents.fcn_agent import FCNAgent
    out = []
    for x in (0.0, 0.25, 0.5, 0.99, 1.0 - 2.0 ** -20):
        for (a, b), (ra, rb) in (((10, 60), (5, 25)), ((1, 2), (3, 4)), ((100, 101), (7, 9))):
            case = {"c": "win", "a": a, "b": b, "ra": ra, "rb": rb, "tw": -1, "tr": -1, "out": "ok"}
            try:
                with warnings.catch_warnings():
                    warnings.simplefilter("ignore")
                    ag = FCNAgent(agent_id=0, prng=_Fixed(x), simulator=Simulator(prng=random.Random(0)), name="w")
                    ag.setup(settings={"cashAmount": 100, "assetVolume": 1, "fundamentalWeight": 1.0, "chartWeight": 0.5, "noiseWeight": 1.0,
                                       "noiseScale": 0.01, "timeWindowSize": [a, b], "meanReversionTime": {"uniform": [ra, rb]},
                                       "orderMargin": 0.01}, accessible_markets_ids=[])
                case["tw"], case["tr"] = int(ag.time_window_size), int(ag.mean_reversion_time)
            except Exception as ex:  # noqa: BLE001
                case["out"] = type(ex).__name__
            out.append(case)
    return out


def all_cases(tier, seed):
    return {"ext": extends_cases(tier, seed), "setup": setup_cases(tier, seed), "jr": jr_cases(tier, seed), "win": win_cases(),
            "cls": cls_cases(), "legacy": legacy_cases()}
