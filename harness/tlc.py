"""Thin wrapper around TLC: model checking of the design models and batch validation of traces."""
import os
import re
import shutil
import subprocess
import time

from .common import SPEC, WORK, MachineryError

JAVA_CP = "/opt/veriftools/tla/tla2tools.jar:/opt/veriftools/tla/CommunityModules-deps.jar"


class TlcResult:
    def __init__(self):
        self.out = ""
        self.rc = None
        self.generated = 0
        self.distinct = 0
        self.depth = 0
        self.wall = 0.0
        self.violation = None      # name of violated invariant/property, if any
        self.error = None          # TLC-level error text (parse error, evaluation error...)
        self.actions = {}          # coverage: action name -> (distinct, generated)
        self.printed = []          # raw PrintT lines

    @property
    def ok(self):
        return self.error is None and self.violation is None


def _scratch(tag):
    d = os.path.join(WORK, "tlc", "%s-%d-%d" % (tag, os.getpid(), int(time.time() * 1000) % 10 ** 9))
    os.makedirs(d, exist_ok=True)
    return d


def run_tlc(module, cfg=None, env=None, workers=16, timeout=1800, simulate=None, depth=None, coverage=False,
            extra=None, cwd=SPEC, seed=None, heap=None, dump_dot=None, tag=None):
    """Run TLC on spec/<module>.tla with spec/<cfg>.  Returns a TlcResult (never raises on violations)."""
    tag = tag or module
    scratch = _scratch(tag)
    cmd = ["java", "-XX:+UseParallelGC", "-Djava.io.tmpdir=" + scratch]      # (TLC's own temporary directories go with the scratch)
    if heap:
        cmd.append("-Xmx%s" % heap)
    cmd += ["-DTLA-Library=" + SPEC, "-cp", JAVA_CP, "tlc2.TLC",
            "-workers", str(workers), "-metadir", os.path.join(scratch, "md"), "-noGenerateSpecTE"]
    if cfg:
        cmd += ["-config", cfg]
    if coverage:
        cmd += ["-coverage", "1"]
    if simulate:
        cmd += ["-simulate", simulate]
    if depth:
        cmd += ["-depth", str(depth)]
    if seed is not None:
        cmd += ["-seed", str(seed)]
    if dump_dot:
        cmd += ["-dump", "dot,actionlabels", dump_dot]
    if extra:
        cmd += list(extra)
    cmd.append(module if module.endswith(".tla") else module + ".tla")
    e = dict(os.environ)
    if env:
        e.update(env)
    r = TlcResult()
    t0 = time.time()
    try:
        p = subprocess.run(cmd, cwd=cwd, env=e, stdout=subprocess.PIPE, stderr=subprocess.STDOUT, timeout=timeout, text=True)
        r.out, r.rc = p.stdout, p.returncode
    except subprocess.TimeoutExpired as ex:
        r.out = (ex.stdout or b"").decode() if isinstance(ex.stdout, bytes) else (ex.stdout or "")
        r.rc = -9
        r.error = "TLC timed out after %ss" % timeout
        subprocess.run(["pkill", "-f", scratch], check=False)
    finally:
        r.wall = time.time() - t0
        shutil.rmtree(scratch, ignore_errors=True)
    _parse(r)
    return r


_RE_STATES = re.compile(r"(\d+) states generated, (\d+) distinct states found")
_RE_DEPTH = re.compile(r"depth of the complete state graph search is (\d+)")
_RE_INV = re.compile(r"Invariant (\S+) is violated")
_RE_PROP = re.compile(r"Action property (\S+) is violated|Temporal properties were violated|property (\S+) is violated")
_RE_ACT = re.compile(r"^<(\w+) line \d+, col \d+ to line \d+, col \d+ of module (\w+)(?: \([^)]*\))?>: (\d+):(\d+)", re.M)


def _parse(r):
    out = r.out
    m = None
    for m in _RE_STATES.finditer(out):
        pass
    if m:
        r.generated, r.distinct = int(m.group(1)), int(m.group(2))
    m = _RE_DEPTH.search(out)
    if m:
        r.depth = int(m.group(1))
    m = _RE_INV.search(out)
    if m:
        r.violation = m.group(1)
    else:
        m = _RE_PROP.search(out)
        if m:
            r.violation = m.group(1) or m.group(2) or "temporal-property"
    for m in _RE_ACT.finditer(out):
        r.actions[m.group(1)] = (int(m.group(3)), int(m.group(4)))
    if r.error is None and r.violation is None:
        if "Model checking completed. No error has been found." not in out and "Finished in" not in out:
            r.error = "TLC did not complete: " + _tail(out)
        elif re.search(r"^Error:", out, re.M) or "TLC threw an unexpected exception" in out or "Parsing or semantic analysis failed" in out:
            r.error = "TLC reported an error: " + _tail(out)
    r.printed = [ln for ln in out.splitlines() if ln.startswith("<<")]


def _tail(s, n=25):
    return "\n".join(s.splitlines()[-n:])


# ---------------------------------------------------------------------------------------------------
_RE_KV = re.compile(r'(\w+)\s*\|->\s*"([^"]*)"')


def parse_verdicts(r, n_expected):
    """VERDICT lines printed by the trace specifications: <<"VERDICT", tid, sync, [C01 |-> "ok", ...]>>.
    Returns {tid: (sync, {prop: verdict})}.  Missing lines are a machinery failure."""
    res = {}
    text = r.out
    for m in re.finditer(r'<<\s*"VERDICT",\s*(\d+),\s*(TRUE|FALSE),\s*\[(.*?)\]\s*>>', text, re.S):
        tid = int(m.group(1))
        kv = dict(_RE_KV.findall(m.group(3)))
        if not kv:
            # a verdict record that cannot be read must never count as "ok"
            raise MachineryError("unreadable VERDICT record for trace %d: %r" % (tid, m.group(0)[:300]))
        res[tid] = (m.group(2) == "TRUE", kv)
    if r.error is not None or len(res) != n_expected:
        raise MachineryError("trace validation produced %d of %d verdicts; %s" % (len(res), n_expected, r.error or _tail(text)))
    return res


def validate_traces(trace_module, cfg, trace_file, n, workers=16, timeout=3600, tag=None):
    r = run_tlc(trace_module, cfg, env={"TRACE_FILE": trace_file}, workers=workers, timeout=timeout, tag=tag)
    return parse_verdicts(r, n), r
