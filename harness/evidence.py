"""Evidence files (/verif/evidence/<id>.json, schema /root/.vp/EVIDENCE.schema.json)."""
import json
import os

from .common import EVIDENCE


def write(prop, tier, seed, level, coverage, assumptions, wall, violations, extra=None):
    if os.environ.get("VERIF_SCRATCH") == "1":
        return None
    os.makedirs(EVIDENCE, exist_ok=True)
    doc = {
        "property_id": prop, "tier": tier, "seed": int(seed), "level": level,
        "coverage": coverage, "assumptions": list(assumptions), "wall_s": round(float(wall), 2),
        "violations": int(violations),
    }
    if extra:
        doc.update(extra)
    path = os.path.join(EVIDENCE, prop + ".json")
    tmp = path + ".tmp%d" % os.getpid()
    with open(tmp, "w") as f:
        json.dump(doc, f, indent=1, sort_keys=True)
    os.replace(tmp, path)
    return path


def validate(path):
    """Self-check against the schema when jsonschema is importable (tooling venv); silent otherwise."""
    try:
        import jsonschema  # noqa
    except Exception:  # noqa: BLE001
        return None
    schema = json.load(open("/root/.vp/EVIDENCE.schema.json"))
    jsonschema.validate(json.load(open(path)), schema)
    return True
