"""Turns verdicts into the check's outcome: KNOWN-FINDING / VIOLATION lines, replay files, exit code."""
import hashlib
import json
import os

from . import findings
from .common import REPLAYS


def clause_of(verdict):
    return verdict.split("@", 1)[0]


def judge(prop, cases, max_report=5):
    """cases: iterable of dicts with keys
         verdict   the sticky verdict string of `prop` for this scenario ("ok" or "<clause>@<n>")
         sig       dict describing the scenario (matched against known findings)
         replay    JSON-serialisable object from which the scenario can be re-run
    Returns (n_violations, n_known, lines)."""
    known = findings.load()
    viol, kn, lines = 0, 0, []
    seen_known = set()
    for c in cases:
        vd = c["verdict"]
        if vd == "ok":
            continue
        clause = clause_of(vd)
        f = findings.match(known, prop, clause, c.get("sig", {}))
        if f is not None:
            kn += 1
            key = (f["clause"], tuple(sorted(f["sig"].items())))
            if key not in seen_known:
                seen_known.add(key)
                lines.append("KNOWN-FINDING: property=%s %s %s :: %s" % (
                    prop, f["clause"], " ".join("%s=%s" % kv for kv in sorted(f["sig"].items())), f["what"]))
            continue
        viol += 1
        if viol <= max_report:
            body = json.dumps({"property": prop, "verdict": vd, "sig": c.get("sig", {}), "replay": c["replay"]},
                              sort_keys=True)
            h = hashlib.sha1(body.encode()).hexdigest()[:12]
            path = os.path.join(REPLAYS, "%s-%s.json" % (prop, h))
            with open(path, "w") as fh:
                fh.write(body)
            lines.append("VIOLATION property=%s replay=%s" % (prop, path))
            lines.append("  clause %s  scenario %s" % (vd, json.dumps(c.get("sig", {}), sort_keys=True)))
    return viol, kn, lines
