"""Random market-level histories on the real Market (code -> spec direction of the binding)."""
import random

from .book_session import PLURAL_ACCESSORS, SINGLE_ACCESSORS, BookSession, Broken

EXACT_GRIDS = [(1.0, 2), (0.5, 2), (0.125, 4), (2.0, 4), (2.0 ** -6, 2), (1.0, 8)]
DECIMAL_GRIDS = [(0.01, 2), (0.1, 2), (0.00001, 2), (0.3, 2), (10.0, 2)]


def profile(rng, flavour):
    """Per-history parameters; flavours bias towards the scenario classes the properties quantify over."""
    p = {
        "nops": rng.choice([30, 40, 60]), "levels": rng.choice([3, 5, 8]), "maxvol": rng.choice([1, 2, 3, 5]),
        "p_mo": 0.12, "p_off": 0.3, "ttls": [0, 0, 1, 2, 3], "p_cont": 0.8, "p_neg": 0.05,
        "w": {"sub": 50, "can": 12, "tick": 12, "match": 8, "cont": 4, "run": 4, "probe": 6, "jump": 0},
    }
    if flavour == "mo-heavy":
        p.update(p_mo=0.45, maxvol=rng.choice([3, 6]), levels=rng.choice([2, 4]))
    elif flavour == "auction":       # long crossed books cleared in one round
        p.update(p_cont=0.05, nops=rng.choice([40, 80]), maxvol=rng.choice([2, 10, 50]))
        p["w"].update(match=5, cont=1, tick=6)
    elif flavour == "ttl":           # fills, cancels and expiry collide in the same step
        p.update(ttls=[1, 1, 1, 2, 0], levels=3)
        p["w"].update(tick=22, can=18)
    elif flavour == "halt":          # running flag toggled often
        p["w"].update(run=14)
    elif flavour == "big":
        p.update(nops=120, levels=8, maxvol=50)
    elif flavour == "deep":          # deep resting books (heaps of 3+ levels), cancels of non-best orders, multi-level sweeps
        p.update(nops=rng.choice([25, 40]), levels=9, maxvol=rng.choice([2, 12]), p_mo=0.2, ttls=[0, 0, 0, 4], p_neg=0.0)
        p["w"].update(sub=30, can=40, tick=4, match=6, cont=0, run=0, probe=0)
        p["deep"] = rng.randint(7, 16)
    elif flavour == "sweep":         # deep books, rounds that touch only the head, then sweeps of several orders; no cancels
        p.update(nops=rng.choice([30, 45]), levels=12, p_neg=0.0)
        p["sweep"] = rng.randint(9, 16)
    elif flavour == "long":          # more than one storage chunk (100 steps): the series are extended while history exists
        p.update(nops=rng.choice([420, 520]), levels=4, ttls=[0, 1, 2, 3], p_neg=0.0)
        p["w"].update(sub=40, can=6, tick=32, match=6, cont=2, run=2, probe=4)
    elif flavour == "farfine":
        p.update(nops=rng.choice([40, 60]), levels=5, maxvol=rng.choice([1, 3]), p_neg=0.0)
        p["w"].update(match=10)
    elif flavour == "jumpy":         # Market._set_time: several steps at once while orders with different lives rest
        p.update(ttls=[1, 2, 3, 4, 6, 0], levels=4, nops=rng.choice([40, 60]))
        p["w"].update(tick=8, jump=10, can=6)
    elif flavour == "standoff":      # market orders resting on BOTH sides (no price to trade at), partial fills of them, new arrivals
        p.update(p_mo=0.5, levels=2, maxvol=rng.choice([3, 5]), ttls=[0], p_cont=0.0, p_neg=0.0, nops=rng.choice([30, 50]))
        p["w"].update(match=30, can=14, tick=3, cont=0, run=0, probe=0)
        p["standoff"] = True
    elif flavour == "penny":         # prices next to zero: a bid below one tick is accepted at price 0 (a price, not None)
        p.update(levels=3, p_off=0.6, p_mo=0.25, maxvol=rng.choice([1, 2, 4]))
        p["penny"] = True
    return p


def one_history(seed, flavour="mixed", exact=True):
    rng = random.Random(seed)
    if flavour == "mixed":
        flavour = rng.choice(["plain", "plain", "mo-heavy", "auction", "ttl", "halt", "deep", "deep", "penny", "jumpy", "sweep", "standoff"])
    pr = profile(rng, flavour)
    tick, den = rng.choice(EXACT_GRIDS if exact else DECIMAL_GRIDS)
    base = 0.0
    if flavour == "farfine":
        # a fine grid far from zero: price / tick above 4e9 (adjacent levels differ by 2e-10 of the price), everything dyadic
        tick, den, base, exact = 2.0 ** -17, 2, 32768.0, True
    mid = rng.randint(8, 40)                    # centre of the requested prices, in ticks
    if pr.get("penny"):
        mid = rng.choice([1, 2, 2, 3])
    p0 = mid * den + rng.choice([0, 0, 1]) * (den // 2 if exact else 0)
    s = BookSession(tick=tick, den=den, exact=exact, p0=p0, base=base)
    cont = rng.random() < pr["p_cont"]
    ops = list(pr["w"].keys())
    wts = [pr["w"][k] for k in ops]
    try:
        _drive(s, rng, pr, ops, wts, cont, mid, den, exact, tick)
        s.end()
    except Broken:
        pass
    h = s.header()
    h["flavour"] = flavour
    h["seed"] = seed
    return h


def _drive(s, rng, pr, ops, wts, cont, mid, den, exact, tick):
    if pr.get("deep"):
        # passive orders on both sides, several per level, inserted in random order (no cross)
        for buy in (True, False):
            for _ in range(pr["deep"]):
                off = rng.randint(1, pr["levels"])
                lvl = max(1, mid - off) if buy else mid + off
                req_float = None if exact else lvl * tick
                s.submit(buy, False, lvl * den, rng.randint(1, 3), 0, req_float=req_float)
                if rng.random() < 0.2:
                    s.tick()
        cont = True
    if pr.get("sweep"):
        _sweeps(s, rng, pr, mid, den, exact, tick)
        return
    if pr.get("standoff"):
        _standoff(s, rng, mid, den, exact, tick)
        cont = False
    for _ in range(pr["nops"]):
        op = rng.choices(ops, wts)[0]
        follow = False
        if op == "sub":
            buy = rng.random() < 0.5
            mo = rng.random() < pr["p_mo"]
            lvl = mid + rng.randint(-pr["levels"], pr["levels"])
            req = max(1, lvl) * den
            if exact and rng.random() < pr["p_off"]:
                req += rng.randint(1, den - 1)
            if pr.get("penny") and lvl <= 0:
                req = rng.randint(1, den - 1)          # positive, below one tick
                if rng.random() < 0.35:
                    req = lvl * den - rng.randint(0, den - 1)      # zero or negative, on or off the grid (Order only warns)
            vol = rng.randint(1, pr["maxvol"])
            if pr.get("deep") and rng.random() < 0.6:
                lvl = mid + (pr["levels"] if buy else -pr["levels"]) * rng.choice([1, 1, 0])   # sweeping price
                req = max(1, lvl) * den
                vol = rng.randint(3, 3 * pr["deep"])
            ttl = rng.choice(pr["ttls"])
            neg = ""
            if rng.random() < pr["p_neg"]:
                neg = rng.choice(["resubmit", "foreign", "resubmit", "foreign", "zero-volume", "negative-volume", "zero-ttl", "negative-ttl",
                                  "limit-without-price", "market-with-price"])
            req_float = None
            if not exact and not mo:
                # decimal grids: on-grid floats as the samples produce them, or off-grid by a fraction of a tick
                req_float = max(1, lvl) * tick + (rng.choice([0.0, 0.0, 0.3, 0.5, 0.999]) * tick if rng.random() < 0.5 else 0.0)
                if pr.get("penny") and lvl <= 0:
                    req_float = rng.choice([0.3, 0.5, 0.999, -0.5, -1.0, -1.25]) * tick
            e = s.submit(buy, mo, req, vol, ttl, neg=neg, req_float=req_float)
            follow = e is not None and neg == ""
        elif op == "can":
            if not s.accepted:
                continue
            oid = rng.choice(list(s.accepted))
            s.cancel(oid)
            follow = True
            if pr.get("deep") and rng.random() < 0.7 and s.m.is_running:
                # right after a cancel: an aggressive order sweeping several levels of the side the cancelled order was on
                was_buy = s.accepted[oid].is_buy
                depth = rng.randint(2, pr["levels"])       # crosses some price levels of that side, not all
                lvl = (mid - depth) if was_buy else (mid + depth)
                s.submit(not was_buy, rng.random() < 0.3, max(1, lvl) * den, rng.randint(4, 3 * pr["deep"]), 0,
                         req_float=None if exact else max(1, lvl) * tick)
        elif op == "tick":
            s.tick()
        elif op == "jump":
            s.jump(rng.choice([2, 2, 3, 5, 5, rng.randint(101, 130), rng.randint(201, 260)]))
        elif op == "match":
            if s.m.is_running or rng.random() < 0.5:
                s.match()
        elif op == "cont":
            cont = not cont
        elif op == "run":
            s.set_running(not s.m.is_running)
        elif op == "probe":
            acc = rng.choice(SINGLE_ACCESSORS + PLURAL_ACCESSORS)
            t = s.m.get_time() + rng.choice([1, 1, 2, 0])
            s.probe(acc, t, plural_with_past=rng.random() < 0.5)
        if follow and cont and s.m.is_running:
            s.match()


def _standoff(s, rng, mid, den, exact, tick):
    """market orders of equal volume rest on both sides (a round finds no price and trades nothing); one of them is cancelled,
    a limit order fills part of the other; then market orders and limit levels arrive on the cancelled side: whether the
    book is executable now depends on what is REALLY left of the partly filled market order"""
    def lim(buy, lvl, vol):
        lvl = max(1, lvl)
        return s.submit(buy, False, lvl * den, vol, 0, req_float=None if exact else lvl * tick)
    side = rng.random() < 0.5                 # the side whose market order stays and is partly filled
    a = rng.randint(3, 6)
    eb = s.submit(True, True, 0, a, 0)
    es = s.submit(False, True, 0, a, 0)
    s.match()
    gone = es if side else eb
    if gone is not None and gone.get("id", -1) in s.accepted:
        s.cancel(gone["id"])
    lim(not side, mid, rng.randint(1, a - 1))          # fills part of the resting market order
    s.match()
    if rng.random() < 0.3:
        s.tick()
    s.submit(not side, True, 0, rng.randint(1, a), 0)
    for k in range(rng.randint(0, 3)):
        lim(not side, mid + (k + 1 if side else -(k + 1)), rng.randint(1, 3))
    s.match()


def _sweeps(s, rng, pr, mid, den, exact, tick):
    """resting orders of volume 2-4 on distinct and repeated levels of both sides (random arrival order); then aggressive
    orders: most take one unit from the head only, some sweep four and more resting orders"""
    def sub(buy, lvl, vol, mo=False):
        lvl = max(1, lvl)
        return s.submit(buy, mo, lvl * den, vol, 0, req_float=None if exact else lvl * tick)
    for buy in (True, False):
        for _ in range(pr["sweep"]):
            off = rng.randint(1, pr["levels"])
            sub(buy, mid - off if buy else mid + off, rng.randint(2, 4))
    for _ in range(pr["nops"] // 3):
        buy = rng.random() < 0.5                      # the aggressor's side
        # one or two rounds that take one unit from the head only ...
        for _ in range(rng.randint(1, 2)):
            sub(buy, mid + 1 if buy else mid - 1, 1, mo=rng.random() < 0.15)
            if s.m.is_running:
                s.match()
        # ... sometimes a small one, then a sweep through several resting orders of that side
        if rng.random() < 0.3:
            sub(buy, mid + 2 if buy else mid - 2, rng.randint(2, 5))
            if s.m.is_running:
                s.match()
        depth = rng.randint(4, pr["levels"])
        sub(buy, mid + depth if buy else mid - depth, rng.randint(8, 30), mo=rng.random() < 0.1)
        if s.m.is_running:
            s.match()
        if rng.random() < 0.2:
            s.tick()
        # the swept side is refilled at random levels (random arrival order decides the heap layout)
        for _ in range(rng.randint(3, 8)):
            off = rng.randint(1, pr["levels"])
            sub(not buy, mid + off if buy else mid - off, rng.randint(2, 4))
            if s.m.is_running:
                s.match()


def generate(n, seed, exact_share=0.8, flavour="mixed"):
    rng = random.Random(seed)
    out = []
    for i in range(n):
        exact = rng.random() < exact_share
        out.append(one_history(rng.randrange(2 ** 40), flavour=flavour, exact=exact))
    return out
