"""Intake of an independently written seeded change (from a sub-agent's scratch worktree).

usage: python -m harness.seedtool <worktree> <property> <name> [--props C01,C04] [--tier quick]

 1. takes `git diff` of the worktree (pams/ only) and the demo program,
 2. confirms in the worktree: the repository's own suite passes with the change; the demo exits 1 with the
    change and 0 without it,
 3. applies the patch to /repo (git apply), runs the registered check(s), and ALWAYS undoes it
    (git -C /repo checkout -- .),
 4. stores patch.diff, the demo and meta.json under /verif/seeded/<name>/.
Nothing is ever committed to /repo.
"""
import argparse
import glob
import json
import os
import shutil
import subprocess
import sys
import time

from .common import VERIF

PY = "/venv/bin/python"


def sh(cmd, cwd=None, env=None, timeout=3600):
    p = subprocess.run(cmd, cwd=cwd, env=env, shell=isinstance(cmd, str), stdout=subprocess.PIPE, stderr=subprocess.STDOUT,
                       text=True, timeout=timeout)
    return p.returncode, p.stdout


def main():
    ap = argparse.ArgumentParser()
    ap.add_argument("worktree")
    ap.add_argument("prop")
    ap.add_argument("name")
    ap.add_argument("--props", default=None)
    ap.add_argument("--tier", default="quick")
    ap.add_argument("--skip-confirm", action="store_true")
    a = ap.parse_args()
    wt = os.path.abspath(a.worktree)
    props = (a.props or a.prop).split(",")
    out = os.path.join(VERIF, "seeded", a.name)
    os.makedirs(out, exist_ok=True)
    rc, diff = sh(["git", "diff", "--", "pams"], cwd=wt)
    if not diff.strip():
        print("no change under pams/ in", wt)
        return 2
    open(os.path.join(out, "patch.diff"), "w").write(diff)
    demos = sorted(glob.glob(os.path.join(wt, "demo_*.py")))
    for d in demos:
        shutil.copy(d, out)
    if os.path.exists(os.path.join(wt, "MUTANT.md")):
        shutil.copy(os.path.join(wt, "MUTANT.md"), out)
    meta = {"property": a.prop, "name": a.name, "checked_at": time.strftime("%Y-%m-%d %H:%M:%S"), "ran": []}
    env = dict(os.environ, PYTHONPATH=wt)
    if not a.skip_confirm:
        rc, o = sh([PY, "-m", "pytest", "-q", "-p", "no:cacheprovider", "--timeout=900", "--deselect", "tests/samples/test_all.py"], cwd=wt, env=env)
        tail = o.strip().splitlines()[-1] if o.strip() else ""
        meta["suite_with_change"] = tail
        meta["ran"].append("pytest (worktree, change applied): " + tail)
        suite_ok = rc == 0
        demo_with, demo_without = None, None
        if demos:
            rc1, _ = sh([PY, os.path.basename(demos[0])], cwd=wt, env=env, timeout=900)
            demo_with = rc1
            sh(["git", "apply", "-R", os.path.join(out, "patch.diff")], cwd=wt)      # (no git stash: it is shared between worktrees)
            try:
                rc0, _ = sh([PY, os.path.basename(demos[0])], cwd=wt, env=env, timeout=900)
                demo_without = rc0
            finally:
                sh(["git", "apply", os.path.join(out, "patch.diff")], cwd=wt)
        meta["demo_exit_with_change"] = demo_with
        meta["demo_exit_without_change"] = demo_without
        meta["confirmed"] = bool(suite_ok and demo_with not in (0, None) and demo_without == 0)
        print("confirm: suite_ok=%s demo_with=%s demo_without=%s" % (suite_ok, demo_with, demo_without))
    # run our checks against /repo with the patch applied
    rc, o = sh(["git", "-C", "/repo", "status", "--porcelain"])
    if o.strip():
        print("refusing: /repo has uncommitted changes:\n" + o)
        return 2
    results = {}
    rc, o = sh(["git", "-C", "/repo", "apply", os.path.join(out, "patch.diff")])
    if rc != 0:
        print("patch does not apply to /repo:\n" + o)
        return 2
    try:
        for p in props:
            t0 = time.time()
            rc, o = sh([os.path.join(VERIF, "check"), p, "--tier", a.tier, "--no-evidence"], cwd=VERIF, env=dict(os.environ, VERIF_TRACES_ONLY="1"))
            viol = [ln for ln in o.splitlines() if ln.startswith("VIOLATION") or ln.startswith("  clause") or ln.startswith("MACHINERY")]
            results[p] = {"exit": rc, "lines": viol[:6], "wall_s": round(time.time() - t0, 1)}
            print("check %s -> exit %d  %s" % (p, rc, viol[:2]))
    finally:
        sh(["git", "-C", "/repo", "checkout", "--", "."])
    meta["checks"] = results
    meta["detected_by"] = [p for p, r in results.items() if r["exit"] == 1]
    meta["ran"].append("git -C /repo apply patch.diff; ./check <prop> --tier %s --no-evidence; git -C /repo checkout -- ." % a.tier)
    json.dump(meta, open(os.path.join(out, "meta.json"), "w"), indent=1)
    print("detected_by:", meta["detected_by"])
    return 0


if __name__ == "__main__":
    sys.exit(main())
