"""Run-level properties: recorded runs of the real SequentialRunner validated by the run-level trace specs."""
import json
import os
import time

from . import evidence, judge, tlc
from .common import WORK, MachineryError, dumps, sub_seed

# trace spec -> (event kinds it consumes, header builder)
PROJ = {
    "TraceEvents": {"kinds": {"tickAll": ["funds", "fok"], "tick": ["m", "t", "dok"], "stepB": ["m", "t", "s", "funds", "mkts", "runs", "idxv", "iok", "idxh", "exec"],
                              "stepE": ["m", "t", "s", "mkts", "runs", "idxv", "iok", "idxh", "exec"], "ret": ["batch"],
                              "acc": ["m", "t", "id", "obj", "buy", "mo", "px", "vol", "ttl", "mp", "p0", "run"],
                              "round": ["m", "t", "fills", "p0"], "abort": None, "init": [], "dupreg": ["m", "refused"]}},
    "TraceClock": {"kinds": {"tickAllB": ["clocks"], "tick": ["m", "t", "idx"], "tickAll": ["clocks"],
                             "sessB": ["s", "start", "steps", "clocks"], "stepB": ["m", "t", "clocks"],
                             "stepE": ["m", "t", "clocks"], "sessE": ["s", "clocks"], "abort": None}},
    "TraceHooks": {"kinds": {"hook": None, "ret": ["batch"], "acc": ["m", "t", "tm", "obj", "req", "mo"], "canc": ["m", "t", "tm"],
                             "round": ["m", "t", "fills"], "tick": ["m", "t"], "sessB": ["s", "start"], "sessE": ["s"], "stepB": ["m", "t"], "stepE": ["m", "t"],
                             "simE": [], "abort": None}},
    "TraceLog": {"kinds": {"acc": ["m", "id", "t", "a", "buy", "mo", "px", "vol", "ttl"], "canc": ["m", "id", "tm", "ovol"],
                           "round": ["m", "t", "fills"], "tick": ["m", "t", "exp"], "lp": ["kind", "ref", "f"], "lw": ["kind", "via"], "flush": [],
                           "stepB": ["s"], "stepE": ["s"], "simB": [], "sessB": ["s"], "sessE": ["s"], "simE": [], "abort": None}},
    "TraceSched": {"kinds": {"sessB": ["s"], "stepB": ["m", "s", "t"], "stepE": ["m"], "consult": ["a", "hft"],
                             "ret": ["a", "hft", "batch"], "acc": ["a", "m"], "canc": ["a", "m"], "round": ["m", "fills"], "abort": None}},
    "TraceOwner": {"kinds": {"ret": ["a", "batch"], "acc": ["a", "m", "id", "obj"], "abort": None}},
    "TraceLedger": {"kinds": {"init": ["hold", "endow"], "acc": ["a", "m", "id"], "canc": ["a", "m", "id"], "round": ["fills"],
                              "applied": ["n", "hold"], "cb": None, "stepE": ["hold"], "simE": ["hold"], "abort": None}},
}


def project(run, spec):
    kinds = PROJ[spec]["kinds"]
    ev = []
    for e in run["ev"]:
        k = e["k"]
        if k not in kinds:
            continue
        keep = kinds[k]
        if keep is None:
            ev.append(e)
        else:
            d = {"k": k}
            for f in keep:
                d[f] = e.get(f, -1)
            ev.append(d)
    init = next((e for e in run["ev"] if e["k"] == "init"), None)
    hdr = {"ev": ev, "twin": "nolog" in run, "nolog": run.get("nolog", [])}
    if init is not None:
        hdr["cs"] = init["cs"]
        hdr["sess"] = init["sess"]
        hdr["hft"] = init["hft"]
        hdr["idx"] = init["idx"]
        hdr["hooks"] = init["hooks"]
        hdr["bump"] = init["bump"]
        hdr["exact"] = run["exact"]
    if "evhdr" in run:
        hdr.update(run["evhdr"])
        if init is None:
            # the configuration was refused at setup: no init record; keep the header shape the trace spec expects
            n = len(run["evhdr"]["w"])
            hdr.setdefault("idx", [bool(c) for c in run["evhdr"]["comps"]])
            hdr.setdefault("sess", [])
            hdr.setdefault("hft", [])
            hdr.setdefault("cs", [0] * n)
            hdr.setdefault("hooks", [])
            hdr.setdefault("bump", [])
            hdr.setdefault("exact", True)
    return hdr


def validate(runs, spec, tag=None):
    """-> {run index: (sync, {prop: verdict})}, wall"""
    lines = [dumps(project(r, spec)) for r in runs]
    verdicts, wall = {}, 0.0
    batches, cur, size, start = [], [], 0, 0
    for i, ln in enumerate(lines):
        if cur and size + len(ln) > 40_000_000:
            batches.append((start, cur))
            cur, size, start = [], 0, i
        cur.append(ln)
        size += len(ln)
    if cur:
        batches.append((start, cur))
    for bi, (start, chunk) in enumerate(batches):
        path = os.path.join(WORK, "%s-%d-%d.ndjson" % (spec, os.getpid(), bi))
        with open(path, "w") as f:
            f.write("\n".join(chunk) + "\n")
        try:
            res, r = tlc.validate_traces(spec, spec + ".cfg", path, len(chunk), tag=tag or spec)
        finally:
            os.remove(path)
        wall += r.wall
        for tid, val in res.items():
            verdicts[start + tid - 1] = val
    return verdicts, wall


# ------------------------------------------------------------------------------------------------ the check
N_RUNS = {"quick": 150, "thorough": 3000}
# property -> list of (trace spec, verdict key); "book" = per-market histories of the runs through TraceBook
SPECS_FOR = {
    "C01": [("book", "C01")],
    "C02": [("book", "C02")],
    "C08": [("book", "C08")],
    "C03": [("TraceEvents", "C03")],
    "C19": [("TraceEvents", "C19")],
    "C04": [("TraceOwner", "C04")],
    "C05": [("TraceLedger", "C05")],
    "C11": [("TraceLedger", "C11")],
    "C09": [("TraceSched", "C09"), ("book", "C09")],
    "C10": [("TraceLog", "C10"), ("book", "C10")],
    "C13": [("TraceHooks", "C13")],
    "C06": [("TraceClock", "C06"), ("book", "C06")],
    "C14": [("TraceEvents", "C14")],
    "C15": [("TraceEvents", "C15")],
    "C16": [("TraceEvents", "C16"), ("book", "C16")],
    "C17": [("TraceEvents", "C17")],
}
EVENT_PROPS = ("C14", "C15", "C16", "C17")
EVENT_KINDS = {"C14": ("fshock", "mistake", "mixed", "index"), "C15": ("plimit", "mixed", "plimit"), "C16": ("halt", "mixed", "haltx", "halt", "haltm"),
               "C17": ("index", "fshock", "index")}
N_EVENT_RUNS = {"quick": 150, "thorough": 3000}
RULES = {
    "C14": "distinct (market, step, fundamental value) observations at step begin in runs with fundamental shocks plus distinct accepted orders at order-mistake trigger times",
    "C15": "distinct (market, requested price, accepted price, reference price) acceptances of limit orders in runs with a price limit rule",
    "C16": "distinct (market, step, running flag, execution switch) observations plus distinct fills in runs with a trading halt rule",
    "C17": "distinct (index value, component market prices) and (index fundamental, component fundamentals) observations",
    "C05": "distinct (fills of a round, holdings after it) pairs among rounds with at least one fill",
    "C11": "distinct callback events (kind, agent, market, order / fill identity) delivered to scripted agents",
    "C09": "distinct (session flags and caps, number of normal / high-frequency consultations, number of non-empty batches) step profiles",
    "C10": "distinct delivered records (kind and reference) among orders, cancels, fills and expiries",
    "C13": "distinct (registered hook, occurrence) pairs at which a probe event hook was invoked",
    "C06": "distinct (session layout, step) observation points at which all market clocks were compared, plus per-market history checks",
}


def build_runs(tier, seed, prop):
    from . import drive_run, scenarios_run
    if prop in EVENT_PROPS:
        from . import drive_events
        runs = drive_events.generate(N_EVENT_RUNS[tier], sub_seed(seed, "events", prop), kinds=EVENT_KINDS[prop])
        if prop == "C17":
            runs += drive_events.negative_index_runs(seed)
        if prop == "C14":
            # order-mistake shocks on markets whose price is zero or negative when they fire
            runs += drive_events.generate(N_EVENT_RUNS[tier] // 3, sub_seed(seed, "events-z", prop), kinds=("mistakez",))
        if prop == "C16":
            # spec -> code: behaviours of the composed PamsSystem WITH a trading halt rule forced through the real runner
            from . import replay_system
            for r in replay_system.runs(tier, seed, profiles=("halt",)):
                r["evhdr"] = drive_events.header_from_cfg(r["cfg"])
                runs.append(r)
        return runs
    runs = drive_run.generate(N_RUNS[tier], sub_seed(seed, "runs"), twin=(prop == "C13"))
    for r in runs:
        r["src"] = "random-config"
    runs += scenarios_run.runs_for(prop, tier, seed)
    if prop in ("C05", "C10", "C11"):
        runs += drive_run.penny_runs(N_RUNS[tier] // 6, seed)
    if prop == "C05":
        runs += drive_run.micro_runs(N_RUNS[tier] // 6, seed)
    if prop == "C10":
        runs += drive_run.session_cancel_runs(N_RUNS[tier] // 6, seed)
    if prop == "C09":
        runs += drive_run.legacy_reuse_runs(N_RUNS[tier] // 5, seed)
    if prop in ("C05", "C06", "C09", "C10", "C11"):
        # spec -> code: TLC behaviours of PamsRunner forced through the real runner (all draws and agent programs)
        from . import replay_run
        runs += replay_run.runs(tier, seed)
    if prop in ("C05", "C09"):
        # ... and of the composed PamsSystem (real books, priced ledger): orders chosen by TLC as well
        from . import replay_system
        runs += replay_system.runs(tier, seed)
    if prop == "C06":
        from . import drive_events
        runs += drive_events.generate(N_EVENT_RUNS[tier] // 3, sub_seed(seed, "events", prop), kinds=("fshock", "index", "mixed"))
    if prop in ("C05", "C10", "C11", "C13"):
        # ledger, log records, callbacks and user hooks while the built-in events act (a halt inside a round of several fills,
        # orders rewritten before acceptance, shocks)
        from . import drive_events
        runs += drive_events.generate(N_EVENT_RUNS[tier] // 3, sub_seed(seed, "events", prop), kinds=("halt", "haltx", "mixed", "plimit", "mistake"))
    if prop == "C09":
        # "no fill in a session without execution, whatever events are configured": runs with the built-in events
        from . import drive_events
        runs += drive_events.generate(N_EVENT_RUNS[tier] // 2, sub_seed(seed, "events", prop), kinds=("halt", "haltx", "mixed", "haltx", "plimit"))
    return runs


def book_histories(runs):
    hs, owner = [], []
    for i, r in enumerate(runs):
        for mid, h in sorted(r["books"].items()):
            h = dict(h)
            h["src"] = "run:" + r.get("src", "?")
            h["halt"] = bool(r.get("evhdr", {}).get("hl"))
            hs.append(h)
            owner.append(i)
    return hs, owner


def stats(prop, runs):
    seen = set()
    ev = 0
    for r in runs:
        ev += len(r["ev"])
        sess = None
        last_round = None
        prof = None
        for e in r["ev"]:
            k = e["k"]
            if prop == "C05":
                if k == "round" and e["fills"]:
                    last_round = json.dumps(e["fills"])
                elif k == "applied" and last_round:
                    seen.add((last_round, json.dumps(e["hold"])))
                    last_round = None
            elif prop == "C11" and k == "cb":
                seen.add((e["kind"], e["a"], e["m"], e.get("id", -1), e.get("b", -1), e.get("s", -1), e.get("v", -1)))
            elif prop == "C10" and k == "lp":
                seen.add((e["kind"], json.dumps(e["ref"]), json.dumps(e["f"])))
            elif prop == "C13" and k == "hook":
                seen.add((e["ev"], e["typ"], e["before"], e["t"], e.get("m", e.get("s"))))
            elif prop == "C09":
                if k == "init":
                    sess = e["sess"]
                elif k == "stepB" and e["m"] == 0:
                    if prof:
                        seen.add(tuple(prof))
                    prof = [json.dumps(sess[e["s"]][1:6]), 0, 0, 0, 0]
                elif prof and k == "consult":
                    prof[2 if e["hft"] else 1] += 1
                elif prof and k == "ret" and e["batch"]:
                    prof[4 if e["hft"] else 3] += 1
            elif prop == "C14":
                if k == "stepB":
                    seen.add((e["m"], e["t"], e["funds"][e["m"]]))
                elif k == "acc" and r.get("evhdr") and any(x[0] == e["m"] and x[1] == e["t"] for x in r["evhdr"]["ms"]):
                    seen.add(("mist", e["m"], e["t"], e["px"], e["vol"]))
            elif prop == "C15" and k == "acc" and not e["mo"]:
                seen.add((e["m"], e["px"], e["p0"], e.get("rqf")))
            elif prop == "C16":
                if k == "stepB":
                    seen.add((e["m"], e["t"], e["run"], e["exec"]))
                elif k == "round" and e["fills"]:
                    seen.add(("fill", e["m"], e["t"], e["fills"][-1][2]))
            elif prop == "C17" and k in ("stepB", "tickAll") and any(x >= 0 for x in e.get("idxv", [])):
                seen.add((json.dumps(e["idxv"]), json.dumps(e["mkts"]), json.dumps(e["funds"])))
            elif prop == "C06" and k in ("stepB", "sessB", "tickAll"):
                seen.add((json.dumps(r["cfg"]["simulation"]["sessions"] if "cfg" in r else 0)[:200], k, json.dumps(e.get("clocks"))))
        if prof:
            seen.add(tuple(prof))
    return len(seen), ev


def sample_run(r, n=12):
    return {"src": r.get("src"), "seed": r.get("seed"), "sessions": r["cfg"]["simulation"]["sessions"],
            "first_events": [{k: e[k] for k in e if k not in ("hold", "clocks", "lf")} for e in r["ev"][:n]]}


def check(prop, tier, seed, t0):
    from . import group_book
    design = design_models(prop, tier)
    runs = build_runs(tier, seed, prop)
    cases = []
    wall = 0.0
    counts = {}
    for spec, key in SPECS_FOR[prop]:
        if spec == "book":
            hs, owner = book_histories(runs)
            if prop in ("C10", "C06"):
                from . import drive_book
                extra = drive_book.generate(150 if tier == "quick" else 4000, sub_seed(seed, "book-for-" + prop))
                for h in extra:
                    h["src"] = "random"
                hs += extra
                owner += [-1] * len(extra)
            verdicts, w = group_book.validate(hs, tag="runbook")
            wall += w
            counts["market_histories"] = len(hs)
            for i, h in enumerate(hs):
                vd = verdicts[i][1].get(key, "ok")
                rp = {"group": "book", "history": {k: h[k] for k in h if k != "ev"}} if owner[i] < 0 else \
                     {"group": "run", "cfg": runs[owner[i]]["cfg"], "seed": runs[owner[i]]["seed"], "scenario": runs[owner[i]].get("scenario")}
                cases.append({"verdict": vd, "sig": dict(runs[owner[i]].get("sig", {}), src=h["src"]) if owner[i] >= 0 else {"src": h["src"]},
                              "replay": rp})
        else:
            verdicts, w = validate(runs, spec)
            wall += w
            for i, r in enumerate(runs):
                vd = verdicts[i][1].get(key, "ok")
                cases.append({"verdict": vd, "sig": dict(r.get("sig", {}), src=r.get("src", "?")),
                              "replay": {"group": "run", "cfg": r["cfg"], "seed": r["seed"], "scenario": r.get("scenario"),
                                         "neg": r.get("evhdr", {}).get("neg", "")}})
    # spec -> code replays: a behaviour of the specification that the implementation does not reproduce (state compared after
    # every step) is a verdict for the property the differing state belongs to
    for r in runs:
        mm = r.get("mismatch") or {}
        if prop in mm:
            cases.append({"verdict": "%s:replayed-behaviour-of-the-specification-not-reproduced-%s@0" % (prop, mm[prop]),
                          "sig": dict(r.get("sig", {}), src=r.get("src", "?")),
                          "replay": {"group": "run", "cfg": r["cfg"], "seed": r["seed"], "scenario": r.get("scenario")}})
    if prop == "C13":
        # the registry API itself: TLC behaviours of PamsHooks replayed into the real Simulator, and random histories,
        # validated by TraceHookReg
        from . import replay_hooks
        hh = replay_hooks.histories(tier, seed)
        res, rr = replay_hooks.validate(hh)
        wall += rr.wall
        counts["registry_histories"] = len(hh)
        for i, h in enumerate(hh):
            cases.append({"verdict": res[i + 1][1].get("C13", "ok"), "sig": {"src": "registry:" + h["src"]},
                          "replay": {"group": "run", "registry": {"idx": h["idx"], "ev": h["ev"], "src": h["src"]}}})
        counts["registry_reference_layer_differences"] = sum(1 for i in range(len(hh)) if res[i + 1][1].get("REF", "ok") != "ok")
    if prop == "C10":
        # the Logger API itself: TLC behaviours of PamsLogger replayed into the real Logger, and random histories,
        # validated by TraceLogger
        from . import replay_logger
        lh = replay_logger.histories(tier, seed)
        res, rr = replay_logger.validate(lh)
        wall += rr.wall
        counts["logger_histories"] = len(lh)
        for i, h in enumerate(lh):
            cases.append({"verdict": res[i + 1][1].get("C10", "ok"), "sig": {"src": "logger:" + h["src"]},
                          "replay": {"group": "run", "logger": {"ev": h["ev"], "src": h["src"]}}})
    viol, known, lines = judge.judge(prop, cases)
    for ln in lines:
        print(ln)
    if os.environ.get("VERIF_DEBUG"):
        import collections
        print("clauses:", collections.Counter(judge.clause_of(c["verdict"]) for c in cases if c["verdict"] != "ok").most_common())
    nontriv, nev = stats(prop, runs)
    aborted = sum(1 for r in runs if r["abort"])
    cov = {
        "states": sum(m["states"] for m in design), "transitions": sum(m["transitions"] for m in design),
        "traces_validated_against_impl": len(runs) + counts.get("market_histories", 0),
        "samples": [sample_run(r) for r in runs[:2]],
        "evaluations": nev, "distinct_nontrivial": nontriv, "rule": RULES[prop], "exhaustive": bool(design and design[0]["states"] > 0),
        "exhaustive_scope": "the bounded design models (TLC breadth-first search ran to completion); recorded runs are sampled",
        "design_models": design, "runs": len(runs), "aborted_runs": aborted,
        "trace_validation_wall_s": round(wall, 1),
    }
    cov.update(counts)
    if prop == "C13":
        from . import replay_hooks
        cov["spec_to_code_replay_registry"] = dict(replay_hooks.last_stats)
    if prop == "C10":
        from . import replay_logger
        cov["spec_to_code_replay_logger"] = dict(replay_logger.last_stats)
    if prop == "C16":
        from . import replay_system
        cov["spec_to_code_replay_composed_system_with_halt_rule"] = dict(replay_system.last_stats)
    if prop in ("C05", "C06", "C09", "C10", "C11"):
        from . import replay_run
        cov["spec_to_code_replay"] = dict(replay_run.last_stats)
        if prop in ("C05", "C09"):
            from . import replay_system
            cov["spec_to_code_replay_composed_system"] = dict(replay_system.last_stats)
    evidence.write(prop, tier, seed, "model_checking", cov, ASSUMPTIONS, time.time() - t0, viol)
    print("%s tier=%s: design states=%d, runs=%d, events=%d, violations=%d, known=%d (%.0fs)" % (
        prop, tier, cov["states"], len(runs), nev, viol, known, time.time() - t0))
    return 1 if viol else 0


ASSUMPTIONS = [
    "TLC explores the bounded PamsRunner design model exhaustively for the constants of its .cfg; nothing is claimed beyond them",
    "runs are observed only through public extension points (Logger subclass, registered Agent / Market / IndexMarket / EventABC / Simulator subclasses, the runner's prng); overrides call the unmodified base method",
    "exact runs use dyadic ticks and endowments so that cash arithmetic in the code is exact and equality is the oracle",
    "scripted agents follow the API contract (own agent id, cancel only accepted orders); contract breaches are separate negative scenarios",
]


def design_models(prop, tier):
    if os.environ.get("VERIF_TRACES_ONLY") == "1":
        return [{"module": "skipped", "states": 0, "transitions": 0, "depth": 0, "wall_s": 0}]
    try:
        from . import design_run
    except ImportError:
        return [{"module": "none-yet", "states": 0, "transitions": 0, "depth": 0, "wall_s": 0}]
    return design_run.models(prop, tier)


def replay(prop, path):
    from . import drive_run, scenarios_run
    doc = json.load(open(path))
    rp = doc["replay"]
    if rp.get("logger"):
        from . import replay_logger
        h = replay_logger.replay_history(rp["logger"])
        res, _ = replay_logger.validate([h])
        vd = res[1][1].get(prop, "ok")
        print("replay %s via TraceLogger: %s" % (prop, vd))
        if vd != "ok":
            print("VIOLATION property=%s replay=%s" % (prop, path))
        return 1 if vd != "ok" else 0
    if rp.get("registry"):
        from . import replay_hooks
        h = replay_hooks.replay_history(rp["registry"])
        res, _ = replay_hooks.validate([h])
        vd = res[1][1].get(prop, "ok")
        print("replay %s via TraceHookReg: %s" % (prop, vd))
        if vd != "ok":
            print("VIOLATION property=%s replay=%s" % (prop, path))
        return 1 if vd != "ok" else 0
    if rp.get("scenario"):
        run = scenarios_run.rerun(rp["scenario"])
    else:
        run = drive_run.execute(rp["cfg"], rp["seed"])
    if any(spec == "TraceEvents" for spec, _ in SPECS_FOR[prop]):
        from . import drive_events
        run["evhdr"] = drive_events.header_from_cfg(rp["cfg"])
        run["evhdr"]["neg"] = rp.get("neg", "")
    bad = False
    from . import group_book
    for spec, key in SPECS_FOR[prop]:
        if spec == "book":
            hs, _ = book_histories([run])
            vs, _ = group_book.validate(hs, tag="replay")
            vds = [vs[i][1].get(key, "ok") for i in range(len(hs))]
        else:
            vs, _ = validate([run], spec)
            vds = [vs[0][1].get(key, "ok")]
        print("replay %s via %s: %s" % (prop, spec, vds))
        bad = bad or any(x != "ok" for x in vds)
    if bad:
        print("VIOLATION property=%s replay=%s" % (prop, path))
    return 1 if bad else 0
