"""Parser for TLA+ values as TLC prints them (PrintT output, -simulate / trace files).

int -> int, "s" -> str, TRUE/FALSE -> bool, <<..>> -> list, {..} -> frozenset-like sorted list wrapped in
TlaSet, [a |-> v] -> dict, (k :> v @@ ..) -> dict with parsed keys, a..b -> TlaSet of ints.
"""


class TlaSet(list):
    """A set, kept as a list of parsed elements (elements may be unhashable dicts)."""


class _P:
    def __init__(self, s):
        self.s, self.i = s, 0

    def ws(self):
        while self.i < len(self.s) and self.s[self.i] in " \t\r\n":
            self.i += 1

    def peek(self, n=1):
        self.ws()
        return self.s[self.i:self.i + n]

    def eat(self, tok):
        self.ws()
        if not self.s.startswith(tok, self.i):
            raise ValueError("expected %r at %d: %r" % (tok, self.i, self.s[self.i:self.i + 40]))
        self.i += len(tok)

    def value(self):
        self.ws()
        c = self.peek()
        if self.peek(2) == "<<":
            self.eat("<<")
            out = []
            if self.peek(2) != ">>":
                while True:
                    out.append(self.value())
                    if self.peek() == ",":
                        self.eat(",")
                    else:
                        break
            self.eat(">>")
            return out
        if c == "{":
            self.eat("{")
            out = TlaSet()
            if self.peek() != "}":
                while True:
                    out.append(self.value())
                    if self.peek() == ",":
                        self.eat(",")
                    else:
                        break
            self.eat("}")
            return out
        if c == "[":
            self.eat("[")
            out = {}
            if self.peek() != "]":
                while True:
                    self.ws()
                    j = self.i
                    while self.s[self.i].isalnum() or self.s[self.i] == "_":
                        self.i += 1
                    key = self.s[j:self.i]
                    self.eat("|->")
                    out[key] = self.value()
                    if self.peek() == ",":
                        self.eat(",")
                    else:
                        break
            self.eat("]")
            return out
        if c == "(":
            self.eat("(")
            out = {}
            while True:
                k = self.value()
                self.eat(":>")
                out[k if not isinstance(k, list) else tuple(k)] = self.value()
                if self.peek(2) == "@@":
                    self.eat("@@")
                else:
                    break
            self.eat(")")
            return out
        if c == '"':
            self.i += 1
            j = self.i
            buf = []
            while self.s[self.i] != '"':
                if self.s[self.i] == "\\":
                    self.i += 1
                buf.append(self.s[self.i])
                self.i += 1
            self.i += 1
            return "".join(buf)
        if self.s.startswith("TRUE", self.i):
            self.i += 4
            return True
        if self.s.startswith("FALSE", self.i):
            self.i += 5
            return False
        j = self.i
        if self.s[self.i] == "-":
            self.i += 1
        while self.i < len(self.s) and self.s[self.i].isdigit():
            self.i += 1
        if j == self.i:
            raise ValueError("cannot parse at %d: %r" % (self.i, self.s[self.i:self.i + 40]))
        n = int(self.s[j:self.i])
        if self.peek(2) == "..":
            self.eat("..")
            m = self.value()
            return TlaSet(range(n, m + 1))
        return n


def parse(s):
    p = _P(s)
    v = p.value()
    p.ws()
    if p.i != len(p.s):
        raise ValueError("trailing text: %r" % p.s[p.i:p.i + 40])
    return v


def split_toplevel(text, opener="<<", closer=">>"):
    """Yield every balanced top-level <<...>> chunk of a TLC output (values may span lines and, with
    several workers, follow each other without separators)."""
    i, n = 0, len(text)
    while True:
        i = text.find(opener, i)
        if i < 0:
            return
        depth, j, instr = 0, i, False
        while j < n:
            ch = text[j]
            if instr:
                if ch == "\\":
                    j += 1
                elif ch == '"':
                    instr = False
            elif ch == '"':
                instr = True
            elif text.startswith(opener, j):
                depth += 1
                j += len(opener) - 1
            elif text.startswith(closer, j):
                depth -= 1
                j += len(closer) - 1
                if depth == 0:
                    yield text[i:j + 1]
                    break
            j += 1
        i = j + 1
