"""C20: the built-in agents on real markets brought to tabulated states; the orders they return are judged by
TraceAgents (TLC) against the decision rules of PamsAgents."""
import itertools
import math
import random
import warnings

from .common import import_pams, sub_seed

import_pams()
from pams.agents.arbitrage_agent import ArbitrageAgent  # noqa: E402
from pams.agents.fcn_agent import FCNAgent  # noqa: E402
from pams.agents.market_maker_agent import MarketMakerAgent  # noqa: E402
from pams.agents.market_share_fcn_agent import MarketShareFCNAgent  # noqa: E402
from pams.index_market import IndexMarket  # noqa: E402
from pams.market import Market  # noqa: E402
from pams.order import LIMIT_ORDER, Order  # noqa: E402
from pams.simulator import Simulator  # noqa: E402

FDEN = 1024
LN2 = math.log(2.0)


class StubGauss(random.Random):
    def __init__(self, k):
        super().__init__(0)
        self.k = k

    def gauss(self, mu=0.0, sigma=1.0):
        return mu + sigma * self.k


class StubGauss2(StubGauss):
    """first draw k (the noise term of the forecast), every later draw q (the noise of a normally distributed margin)"""

    def __init__(self, k, q):
        super().__init__(k)
        self.q = q
        self.n = 0

    def gauss(self, mu=0.0, sigma=1.0):
        self.n += 1
        return mu + sigma * (self.k if self.n % 2 == 1 else self.q)


def fine(x, tick=1.0):
    k = round(x / (tick / FDEN))
    return int(k) if k * (tick / FDEN) == x and abs(k) < 2 ** 30 else -1


def market_with_history(sim, mid, name, prices, fund, cls=Market, running=True, trade=True, extra=None):
    """a real Market whose market price at time t is prices[t] (set by a trade at that price in step t)"""
    m = cls(market_id=mid, prng=random.Random(mid), simulator=sim, name=name)
    with warnings.catch_warnings():
        warnings.simplefilter("ignore")
        m.setup(dict({"tickSize": 1.0, "marketPrice": prices[0], "outstandingShares": 100}, **(extra or {})))
    sim._add_market(m)
    for t, p in enumerate(prices):
        m._update_time(next_fundamental_price=fund)
        m._is_running = True
        if trade:
            m._add_order(Order(agent_id=99, market_id=mid, is_buy=True, kind=LIMIT_ORDER, volume=1, price=p))
            m._add_order(Order(agent_id=99, market_id=mid, is_buy=False, kind=LIMIT_ORDER, volume=1, price=p))
            m._execution()
        m._is_running = running
    return m


def summarize(agent, orders, tick=1.0):
    out = []
    for o in orders:
        if not isinstance(o, Order):
            out.append([-1, -1, False, False, 0, 0, -1, False])
            continue
        out.append([int(o.agent_id), int(o.market_id), bool(o.is_buy), o.kind == LIMIT_ORDER, int(o.volume), int(o.ttl or 0),
                    fine(o.price, tick) if o.price is not None else -1, bool(agent.is_market_accessible(o.market_id))])
    return out


def call(agent, markets):
    with warnings.catch_warnings():
        warnings.simplefilter("ignore")
        try:
            return "ok", agent.submit_orders(markets=markets)
        except Exception as ex:  # noqa: BLE001
            return type(ex).__name__, []


# ------------------------------------------------------------------------------------------------ FCN
WEIGHTS = [(1, 0, 0), (0, 1, 0), (0, 0, 1), (1, 1, 1), (2, 1, 0), (1, 0, 3), (0, 2, 1), (3, 1, 2)]
WINDOWS = [(1, 1), (2, 1), (3, 2), (2, 3), (2, 0), (3, 0)]          # (time window, mean reversion time; 0 counts as 1)


def fcn_cases(tier, seed):
    rng = random.Random(sub_seed(seed, "fcn"))
    # early: the market is younger than the configured window (the window actually used is min(time, window))
    grid = list(itertools.product([-1, 0, 1], [-1, 0, 1], [-1, 0, 1], [-2, -1, 0, 1, 2], WEIGHTS, WINDOWS, [0.0, 0.125], [0, 1], [0, 1, 2]))
    if tier == "quick":
        grid = rng.sample(grid, 900)
    out = []
    for gi, (a, af, ap, k, (wF, wC, wN), (W, tr_cfg), margin, other_first, early) in enumerate(grid):
        tr = max(tr_cfg, 1)           # a configured mean reversion time of 0 is guarded by max(., 1) in the documented formula
        normal = gi % 4 == 0          # margin type "normal": the quote is noised, the SIDE still follows the expected price
        twin = gi % 3 == 0            # a second accessible market in the same state: one order per accessible market
        ws = [1.0, 0.125, 0.0625, 4.0][gi % 4 if gi % 5 else 1]      # the weights count relative to their sum, whatever the sum is
        on_index = bool(other_first) and gi % 2 == 1    # the market is an INDEX market: its fundamental is the one it records
        T = W + 1 if early == 0 else max(0, W - early)      # market time at the decision
        tw = min(T, W)                                       # window actually used
        if tw == 0 and ap != a:
            continue                                         # no past price to differ from at time 0
        twe = max(tw, 1)             # 1 / max(window used, 1) in the code
        t1 = wF * (af - a) * twe
        t2 = wC * (a - ap) * tr
        t3 = wN * k * tr * twe
        if t1 + t2 + t3 == 0 and not (t1 == 0 and t2 == 0 and t3 == 0):
            continue            # exact cancellation: the float sign is a rounding artefact (excluded from the table)
        P, F, Pp = 100.0 * 2 ** a, 100.0 * 2 ** af, 100.0 * 2 ** ap
        sim = Simulator(prng=random.Random(0))
        prices = [Pp] * (T + 1)
        prices[T] = P
        for u in range(T - tw + 1, T):
            prices[u] = P
        if tw > 0:
            prices[T - tw] = Pp
        mkts = []
        if other_first:
            mkts.append(market_with_history(sim, 0, "other", [300.0] * (T + 1), 300.0))
        if on_index:
            # (the component's fundamental is 300: what the components would give is NOT what the index market recorded)
            m = market_with_history(sim, len(mkts), "m", prices, F, cls=IndexMarket, extra={"markets": ["other"]})
        else:
            m = market_with_history(sim, len(mkts), "m", prices, F)
        mkts.append(m)
        mks = [m.market_id]
        if twin:
            m2 = market_with_history(sim, len(mkts), "m2", prices, F)
            mkts.append(m2)
            mks.append(m2.market_id)
        # (normal margin: quote = expected price + 2 x 10, always above the market price when the agent should SELL)
        ag = FCNAgent(agent_id=7, prng=StubGauss2(k, 2) if normal else StubGauss(k), simulator=sim, name="fcn")
        # (the strategy does not look at the agent's own cash or position: an agent without either still quotes)
        ag.setup(settings={"cashAmount": 1 if gi % 7 in (3, 6) else 1000, "assetVolume": 0 if gi % 7 in (3, 5) else 10, "fundamentalWeight": wF * ws, "chartWeight": wC * ws, "noiseWeight": wN * ws,
                           "noiseScale": LN2, "timeWindowSize": W, "orderMargin": 10.0 if normal else margin,
                           "marginType": "normal" if normal else "fixed",
                           "meanReversionTime": tr_cfg}, accessible_markets_ids=list(mks))
        st, orders = call(ag, mkts)
        # independent evaluation of the documented formula
        f_lr = (1.0 / max(tr, 1)) * math.log(F / P)
        c_lr = (1.0 / max(tw, 1)) * math.log(P / Pp)
        n_lr = LN2 * k
        e_lr = (wF * f_lr + wC * c_lr + wN * n_lr) / (wF + wC + wN)
        exp_px = P * math.exp(e_lr * W)
        pok = True
        for o in ([] if normal else orders):
            want = exp_px * (1 - margin) if o.is_buy else exp_px * (1 + margin)
            pok = pok and abs(o.price - want) <= 1e-12 * abs(want)
            # shaded by the margin: a buy is quoted at or below the expected price, a sell at or above
            pok = pok and ((o.price <= exp_px * (1 + 1e-12)) if o.is_buy else (o.price >= exp_px * (1 - 1e-12)))
        out.append({"c": "fcn", "aid": 7, "wF": wF, "wC": wC, "wN": wN, "af": af, "a": a, "ap": ap, "k": k, "tr": tr, "tw": twe,
                    "mkt": m.market_id, "mks": mks, "ttl": W, "W": W, "t": T, "out": st, "ords": summarize(ag, orders), "pok": bool(pok)})
    return out


# ------------------------------------------------------------------------------------------------ market maker
def mm_cases(tier, seed):
    rng = random.Random(sub_seed(seed, "mm"))
    out = []
    n = 300 if tier == "quick" else 6000
    for i in range(n):
        sim = Simulator(prng=random.Random(0))
        nm = rng.randint(1, 3)
        acc = [True] + [rng.random() < 0.6 for _ in range(nm - 1)]
        mkts, bests = [], []
        tpx = float(rng.choice([64, 100, 128, 200]))
        fund = float(rng.choice([64, 96, 128, 256]))
        for j in range(nm):
            p0 = tpx if j == 0 else float(rng.choice([80, 120, 160]))
            m = market_with_history(sim, j, "m%d" % j, [p0, p0], fund if j == 0 else 50.0, running=False, trade=False)
            bb = rng.choice([0, 0, rng.randint(40, 99), rng.randint(40, 170)])
            bs = rng.choice([0, 0, rng.randint(100, 220), (bb or 60) + rng.randint(1, 40)])    # (the best bid of one market may lie above the best ask of another)
            if bb:
                m._add_order(Order(agent_id=99, market_id=j, is_buy=True, kind=LIMIT_ORDER, volume=1, price=float(bb)))
                if rng.random() < 0.5:
                    m._add_order(Order(agent_id=99, market_id=j, is_buy=True, kind=LIMIT_ORDER, volume=1, price=float(bb - rng.randint(1, 9))))
            if bs:
                m._add_order(Order(agent_id=99, market_id=j, is_buy=False, kind=LIMIT_ORDER, volume=2, price=float(bs)))
            mkts.append(m)
            bests.append([bool(acc[j]), bb * FDEN, bs * FDEN])
        sn, sd = rng.choice([(1, 8), (1, 4), (1, 16), (3, 16), (1, 64), (1, 1), (2, 1)])      # (spreads so wide that the bid is below zero)
        ttl = rng.choice([1, 2, 5])
        ag = MarketMakerAgent(agent_id=3, prng=random.Random(1), simulator=sim, name="mm")
        ag.setup(settings={"cashAmount": 1000, "assetVolume": 10, "targetMarket": "m0", "netInterestSpread": sn / sd, "orderTimeLength": ttl},
                 accessible_markets_ids=[j for j in range(nm) if acc[j]])
        st, orders = call(ag, mkts)
        out.append({"c": "mm", "aid": 3, "bests": bests, "tpx": int(tpx * FDEN), "fund": int(fund * FDEN), "sn": sn, "sd": sd,
                    "mkt": 0, "ttl": ttl, "out": st, "ords": summarize(ag, orders)})
    return out


# ------------------------------------------------------------------------------------------------ arbitrage
def arb_cases(tier, seed):
    rng = random.Random(sub_seed(seed, "arb"))
    out = []
    n = 300 if tier == "quick" else 6000
    for i in range(n):
        sim = Simulator(prng=random.Random(0))
        nc = rng.choice([2, 2, 4])
        comps = []
        base = rng.choice([96, 128, 200])
        for j in range(nc):
            p = float(base + rng.choice([-8, -4, 0, 4, 8, 16]))
            comps.append(market_with_history(sim, j, "c%d" % j, [p, p], p, running=True, trade=False))
        ival = sum(c.get_market_price() for c in comps) / nc
        gap = rng.choice([-6, -2, -1, -0.5, 0, 0.5, 1, 2, 6])
        thr = rng.choice([0.5, 1.0, 2.0, 4.0])
        ipx = ival + gap
        idx = IndexMarket(market_id=nc, prng=random.Random(9), simulator=sim, name="idx")
        idx.setup({"tickSize": 1.0, "marketPrice": ipx, "markets": ["c%d" % j for j in range(nc)]})
        sim._add_market(idx)
        idx._update_time(next_fundamental_price=ival)
        idx._update_time(next_fundamental_price=ival)
        idx._is_running = True
        stopped = rng.random() < 0.15
        if stopped:
            rng.choice(comps + [idx])._is_running = False
        v = rng.choice([1, 3])
        ttl = rng.choice([1, 4])
        ag = ArbitrageAgent(agent_id=5, prng=random.Random(2), simulator=sim, name="arb")
        ag.setup(settings={"cashAmount": 1000, "assetVolume": 10, "orderVolume": v, "orderThresholdPrice": thr, "orderTimeLength": ttl},
                 accessible_markets_ids=list(range(nc + 1)))
        if rng.random() < 0.4:
            # the decision is taken a second time in the SAME step after a component has traded at another price: it
            # follows the index as it is now, not as it was when it was first looked at
            call(ag, comps + [idx])
            idx.get_market_index()
            movers = [c for c in comps if c.is_running]
            if movers:
                c0 = rng.choice(movers)
                p2 = c0.get_market_price() + rng.choice([-8.0, -4.0, 4.0, 8.0])
                c0._add_order(Order(agent_id=99, market_id=c0.market_id, is_buy=True, kind=LIMIT_ORDER, volume=1, price=p2))
                c0._add_order(Order(agent_id=99, market_id=c0.market_id, is_buy=False, kind=LIMIT_ORDER, volume=1, price=p2))
                c0._execution()
                ival = sum(c.get_market_price() for c in comps) / nc
        st, orders = call(ag, comps + [idx])
        pok = True
        for o in orders:
            mk = sim.id2market[o.market_id]
            pok = pok and o.price == mk.get_market_price()
        active = bool(idx.is_running and all(c.is_running for c in comps))
        out.append({"c": "arb", "aid": 5, "ipx": fine(ipx), "ival": fine(ival), "thr": fine(thr), "active": active, "comps": list(range(nc)),
                    "imkt": nc, "v": v, "ttl": ttl, "out": st, "ords": summarize(ag, orders), "pok": bool(pok)})
    return out


def arb2_cases(tier, seed):
    """one arbitrage agent, TWO index markets sharing a component, gaps on either side of the threshold in either direction:
    the orders returned are the baskets of the indices, one after the other in market order"""
    rng = random.Random(sub_seed(seed, "arb2"))
    out = []
    n = 150 if tier == "quick" else 3000
    for i in range(n):
        sim = Simulator(prng=random.Random(0))
        base = rng.choice([96, 128, 200])
        comps = []
        for j in range(3):
            p = float(base + rng.choice([-8, -4, 0, 4, 8]))
            comps.append(market_with_history(sim, j, "c%d" % j, [p, p], p, running=True, trade=False))
        idxs = []
        for k, members in enumerate(([0, 1], [1, 2])):
            ival = sum(comps[j].get_market_price() for j in members) / 2
            gap = rng.choice([-6, -2, -0.5, 0, 0.5, 2, 6])
            ipx = ival + gap
            idx = IndexMarket(market_id=3 + k, prng=random.Random(9), simulator=sim, name="idx%d" % k)
            idx.setup({"tickSize": 1.0, "marketPrice": ipx, "markets": ["c%d" % j for j in members]})
            sim._add_market(idx)
            idx._update_time(next_fundamental_price=ival)
            idx._update_time(next_fundamental_price=ival)
            idx._is_running = True
            idxs.append((idx, members, ipx, ival))
        thr = rng.choice([1.0, 4.0])
        v = rng.choice([1, 3])
        ttl = rng.choice([1, 4])
        ag = ArbitrageAgent(agent_id=5, prng=random.Random(2), simulator=sim, name="arb")
        ag.setup(settings={"cashAmount": 1000, "assetVolume": 10, "orderVolume": v, "orderThresholdPrice": thr, "orderTimeLength": ttl},
                 accessible_markets_ids=[0, 1, 2, 3, 4])
        st, orders = call(ag, comps + [x[0] for x in idxs])
        pok = all(o.price == sim.id2market[o.market_id].get_market_price() for o in orders)
        out.append({"c": "arb2", "aid": 5, "thr": fine(thr), "v": v, "ttl": ttl, "out": st, "ords": summarize(ag, orders), "pok": bool(pok),
                    "idxs": [[int(x[0].market_id), fine(x[2]), fine(x[3]), list(x[1])] for x in idxs]})
    return out


# ------------------------------------------------------------------------------------------------ market share FCN
def share_cases(tier, seed):
    rng = random.Random(sub_seed(seed, "share"))
    out = []
    n = 150 if tier == "quick" else 3000
    for i in range(n):
        sim = Simulator(prng=random.Random(0))
        mk = [market_with_history(sim, j, "m%d" % j, [100.0, float(rng.choice([90, 100, 130])), float(rng.choice([80, 100, 125]))], float(rng.choice([90, 110])))
              for j in range(3)]
        acc = sorted(rng.sample(range(3), rng.randint(1, 3)))
        ag = MarketShareFCNAgent(agent_id=11, prng=random.Random(rng.randrange(2 ** 30)), simulator=sim, name="ms")
        ag.setup(settings={"cashAmount": 1000, "assetVolume": 10, "fundamentalWeight": 1.0, "chartWeight": 0.5, "noiseWeight": 1.0,
                           "noiseScale": 0.01, "timeWindowSize": 2, "orderMargin": 0.01}, accessible_markets_ids=acc)
        st, orders = call(ag, mk)
        out.append({"c": "share", "aid": 11, "out": st, "ords": summarize(ag, orders)})
    return out


def pop_cases(tier, seed):
    """FCN agents as the RUNNER builds them from one configuration section (one settings entry for the whole group): every
    agent's mean reversion time is the configured one or, when none is configured, its OWN time window"""
    from pams.runners.sequential import SequentialRunner
    rng = random.Random(sub_seed(seed, "pop"))
    out = []
    for i in range(8 if tier == "quick" else 120):
        cfgtr = rng.choice([-1, -1, 7])
        a = {"class": "FCNAgent", "numAgents": rng.randint(2, 9), "markets": ["M"], "assetVolume": 50, "cashAmount": 10000,
             "fundamentalWeight": {"expon": [1.0]}, "chartWeight": {"expon": [0.5]}, "noiseWeight": {"expon": [1.0]}, "noiseScale": 0.001,
             "timeWindowSize": [10, 60], "orderMargin": [0.0, 0.1]}
        if cfgtr >= 0:
            a["meanReversionTime"] = cfgtr
        cfg = {"simulation": {"markets": ["M"], "agents": ["A"], "sessions": [
            {"sessionName": 0, "iterationSteps": 2, "withOrderPlacement": True, "withOrderExecution": True, "withPrint": False}]},
            "M": {"class": "Market", "tickSize": 0.01, "marketPrice": 300.0}, "A": a}
        case = {"c": "pop", "aid": 0, "out": "ok", "ords": [], "cfgtr": cfgtr, "ags": []}
        try:
            with warnings.catch_warnings():
                warnings.simplefilter("ignore")
                r = SequentialRunner(settings=cfg, prng=random.Random(rng.randrange(2 ** 30)))
                r._setup()
            case["ags"] = [[int(x.time_window_size), int(x.mean_reversion_time)] for x in r.simulator.agents]
        except Exception as ex:  # noqa: BLE001
            case["out"] = type(ex).__name__
        out.append(case)
    return out


def all_cases(tier, seed):
    return {"fcn": fcn_cases(tier, seed), "mm": mm_cases(tier, seed), "arb": arb_cases(tier, seed), "arb2": arb2_cases(tier, seed),
            "share": share_cases(tier, seed), "pop": pop_cases(tier, seed)}
