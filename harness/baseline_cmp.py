"""Compare a junit xml of the repository's own suite with /root/.vp/BASELINE.json stable_pass."""
import json, sys
import xml.etree.ElementTree as ET
b = json.load(open('/root/.vp/BASELINE.json'))
want = set(b['stable_pass'])
got = set()
for tc in ET.parse(sys.argv[1]).getroot().iter('testcase'):
    bad = any(c.tag in ('failure', 'error', 'skipped') for c in tc)
    if not bad:
        got.add(tc.get('classname') + '::' + tc.get('name'))
missing = sorted(want - got)
print('stable_pass', len(want), 'passing now', len(got), 'missing', len(missing))
for m in missing[:20]:
    print('  MISSING', m)
sys.exit(1 if missing else 0)
