"""Hand-built run-level scenarios that random configurations reach rarely or never."""
import random

from . import drive_run
from .common import sub_seed


def _base(n_markets=1, n_normal=2, n_hft=1, sessions=None, tick=1.0, script=None, events=None, index=False):
    names = ["M%d" % i for i in range(n_markets)]
    cfg = {"simulation": {"markets": list(names), "agents": ["N"] + (["H"] if n_hft else []), "sessions": sessions}}
    for i, m in enumerate(names):
        cfg[m] = {"class": "ProbeMarket", "tickSize": tick, "marketPrice": (100 + 10 * i) * tick, "outstandingShares": 100 * (i + 1)}
    allm = list(names)
    if index:
        cfg["IDX"] = {"class": "ProbeIndexMarket", "tickSize": tick, "marketPrice": 105.0 * tick, "markets": list(names)}
        cfg["simulation"]["markets"].append("IDX")
        allm.append("IDX")
    sc = {"pEmpty": 0.2, "pCancel": 0.2, "pMarket": 0.1, "maxBatch": 2, "maxVol": 3, "spread": 3, "ttls": [0, 1, 2, 5], "pOff": 0.2}
    sc.update(script or {})
    cfg["N"] = {"class": "ScriptAgent", "numAgents": n_normal, "markets": allm, "assetVolume": 50, "cashAmount": 10000, "script": sc}
    if n_hft:
        cfg["H"] = {"class": "ScriptHFT", "numAgents": n_hft, "markets": allm, "assetVolume": 50, "cashAmount": 10000, "script": sc}
    for name, ev in (events or {}).items():
        cfg[name] = ev
    return cfg


def _sess(steps, place=True, exe=True, maxn=2, maxh=1, rate=1.0, events=None, name=None):
    d = {"sessionName": name if name is not None else "s%d" % steps, "iterationSteps": steps, "withOrderPlacement": place,
         "withOrderExecution": exe, "withPrint": False, "maxNormalOrders": maxn, "maxHighFrequencyOrders": maxh,
         "highFrequencySubmitRate": rate}
    if events:
        d["events"] = events
    return d


def long_runs(tier, seed):
    """C06: runs crossing the 100-step storage chunks of Market and the generation chunks of Fundamentals."""
    out = []
    lay = [[230], [120]] if tier == "quick" else [[230], [99, 2, 110], [310], [100, 100, 101]]
    for k, steps in enumerate(lay if tier == "thorough" else lay[:1] + [[60, 45]]):
        sessions = [_sess(n, name="L%d_%d" % (k, i), exe=(i % 2 == 0 or len(steps) == 1), maxn=1, maxh=1, rate=0.5) for i, n in enumerate(steps)]
        cfg = _base(n_markets=2, n_normal=2, n_hft=1, sessions=sessions, index=(k % 2 == 0),
                    script={"pEmpty": 0.5, "maxBatch": 1, "ttls": [0, 3, 7]})
        r = drive_run.execute(cfg, sub_seed(seed, "long", k) % (2 ** 31))
        r["src"] = "long-run"
        out.append(r)
    return out


def runs_for(prop, tier, seed):
    if prop == "C06":
        return long_runs(tier, seed)
    return []


def rerun(scenario):
    raise NotImplementedError(scenario)
