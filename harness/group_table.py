"""Decision-table properties: cases enumerated on a grid, run through the real function, judged by a TLA+ trace
specification (C18 configuration expansion; C20 built-in agents; C12 fundamentals use the same plumbing)."""
import json
import os
import time

from . import evidence, judge, tlc
from .common import WORK, MachineryError, dumps

BATCH = 250


def validate_cases(groups, spec, prop):
    """groups: {kind: [case, ...]} -> list of judge cases (one per batch), wall"""
    lines = []
    for kind, cs in groups.items():
        for i in range(0, len(cs), BATCH):
            lines.append((kind, i, cs[i:i + BATCH]))
    path = os.path.join(WORK, "%s-%d.ndjson" % (spec, os.getpid()))
    with open(path, "w") as f:
        for kind, i, cs in lines:
            f.write(dumps({"cs": cs}) + "\n")
    try:
        res, r = tlc.validate_traces(spec, spec + ".cfg", path, len(lines), workers=8, tag=spec)
    finally:
        os.remove(path)
    cases = []
    for n, (kind, i, cs) in enumerate(lines):
        vd = res[n + 1][1].get(prop, "ok")
        failing = None
        if vd != "ok":
            try:
                failing = cs[int(vd.split("@")[1]) - 1]
            except Exception:  # noqa: BLE001
                failing = None
        cases.append({"verdict": vd, "sig": {"table": kind}, "replay": {"group": "table", "table": kind, "case": failing}})
    return cases, r.wall


def table_models(mods):
    out = []
    for mod, cfg in mods:
        r = tlc.run_tlc(mod, cfg, workers=8, timeout=1800, tag=mod)
        if not r.ok:
            raise MachineryError("table model %s: %s" % (mod, r.violation or r.error))
        out.append({"module": mod, "states": r.distinct, "transitions": r.generated, "depth": r.depth, "wall_s": round(r.wall, 1)})
    return out


def check_c18(tier, seed, t0):
    from . import drive_config
    prop = "C18"
    models = [] if os.environ.get("VERIF_TRACES_ONLY") == "1" else table_models([("TableConfig", "TableConfig.cfg")])
    groups = drive_config.all_cases(tier, seed)
    cases, wall = validate_cases(groups, "TraceConfig", prop)
    viol, known, lines = judge.judge(prop, cases)
    for ln in lines:
        print(ln)
    n = sum(len(v) for v in groups.values())
    distinct = len({json.dumps(c, sort_keys=True) for v in groups.values() for c in v})
    cov = {"states": sum(m["states"] for m in models), "transitions": sum(m["transitions"] for m in models),
           "traces_validated_against_impl": n, "samples": [groups["ext"][0], groups["setup"][0], groups["jr"][5], groups["cls"][0], groups["legacy"][-1]],
           "evaluations": n, "distinct_nontrivial": distinct,
           "rule": "distinct cases (inheritance graph x start x excluded keys; group declarations; value shapes x stub draws; class names x registered lists; legacy keys) replayed into the real function",
           "exhaustive": tier == "thorough", "design_models": models, "cases_per_table": {k: len(v) for k, v in groups.items()},
           "trace_validation_wall_s": round(wall, 1)}
    evidence.write(prop, tier, seed, "model_checking", cov, ASSUMPTIONS_C18, time.time() - t0, viol)
    print("%s tier=%s: design states=%d, cases=%d, violations=%d, known=%d (%.0fs)" % (prop, tier, cov["states"], n, viol, known, time.time() - t0))
    return 1 if viol else 0


ASSUMPTIONS_C18 = [
    "the inheritance table covers every graph on three names plus one missing parent with two keys; larger graphs are not claimed",
    "class names are names of classes (lower-case module names such as 'market' also resolve in find_class; outside the property)",
    "JsonRandom values are compared exactly with a generator stub returning k/8; the real generator is only checked for the support",
]


def check_c12(tier, seed, t0):
    from . import drive_fund
    prop = "C12"
    models = [] if os.environ.get("VERIF_TRACES_ONLY") == "1" else table_models([("MC_PamsFundamentals", "MC_PamsFundamentals.cfg"), ("MC_PamsFundamentals_late", "MC_PamsFundamentals_late.cfg")])
    lines = drive_fund.all_lines(tier, seed)
    keep = ("mode", "chunk", "ev", "cs", "starts")
    path = os.path.join(WORK, "TraceFund-%d.ndjson" % os.getpid())
    with open(path, "w") as f:
        for d in lines:
            f.write(dumps({k: d[k] for k in keep if k in d}) + "\n")
    try:
        res, r = tlc.validate_traces("TraceFund", "TraceFund.cfg", path, len(lines), workers=8, tag="TraceFund")
    finally:
        os.remove(path)
    cases = []
    nev = 0
    distinct = set()
    for i, d in enumerate(lines):
        vd = res[i + 1][1].get(prop, "ok")
        items = d.get("ev") or d.get("cs")
        nev += len(items)
        for e in items:
            if e.get("chg") or e.get("k") in ("shock", "chg") or e.get("c"):
                distinct.add(json.dumps(e, sort_keys=True)[:300])
        rp = {"group": "table", "table": "fund", "mode": d["mode"], "seed": d.get("seed"), "zero_vol": d.get("zero_vol"),
              "chunk": d.get("chunk"), "kind": d.get("kind")}
        cases.append({"verdict": vd, "sig": {"mode": d["mode"], "kind": d.get("kind", "history")}, "replay": rp})
    viol, known, out = judge.judge(prop, cases)
    for ln in out:
        print(ln)
    hist = [d for d in lines if d["mode"] == "hist"]
    cov = {"states": sum(m["states"] for m in models), "transitions": sum(m["transitions"] for m in models),
           "traces_validated_against_impl": len(lines),
           "samples": [{"chunk": hist[0]["chunk"], "first_events": hist[0]["ev"][:4]}, [d for d in lines if d["mode"] == "cases"][0]["cs"][0]],
           "evaluations": nev, "distinct_nontrivial": len(distinct),
           "rule": "distinct operations that regenerated, changed or shocked values (with the set of changed indices) plus distinct algebraic / sampling cases",
           "exhaustive": False, "design_models": models, "histories": len(hist), "trace_validation_wall_s": round(r.wall, 1)}
    evidence.write(prop, tier, seed, "model_checking", cov, ASSUMPTIONS_C12, time.time() - t0, viol)
    print("%s tier=%s: design states=%d, histories=%d, operations+cases=%d, violations=%d, known=%d (%.0fs)" % (
        prop, tier, cov["states"], len(hist), nev, viol, known, time.time() - t0))
    return 1 if viol else 0


ASSUMPTIONS_C12 = [
    "TLC decides the history / regeneration half (which indices may change) and the rational return law; float comparisons (log-returns to 1e-6 absolute, zero-volatility closed form to 1e-9 relative, sampling within 6 standard errors) are harness side conditions passed to TLC as booleans or scaled integers",
    "change times lie within the generated horizon (the setters index past the list otherwise - outside the admissible inputs)",
    "the algebraic probe replaces the NumPy generator of the Fundamentals object by one returning chosen draws",
]


def check(prop, tier, seed, t0):
    if prop == "C12":
        return check_c12(tier, seed, t0)
    if prop == "C18":
        return check_c18(tier, seed, t0)
    if prop == "C20":
        from . import group_agents
        return group_agents.check(tier, seed, t0)
    raise MachineryError("no table check for " + prop)


def replay(prop, path):
    doc = json.load(open(path))
    print("table case: %s" % json.dumps(doc["replay"].get("case"))[:500])
    # tables are deterministic: re-run the quick tier of the property
    return check(prop, "quick", doc.get("seed", 1), time.time())
