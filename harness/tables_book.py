"""Systematic (non-random) drivers for the market-level properties.

 * tick grid (C19): the grid of spec/TableTick.cfg driven through the real Market._add_order
 * arrival-order permutations (C02): every permutation of a multiset of orders, one round
 * comparison table (C02): every pair of a finite universe as real Order objects, all six operators
"""
import itertools
import os
import random

from . import tlc
from .book_session import BookSession, Broken
from .common import WORK, MachineryError, dumps, import_pams, sub_seed

import_pams()
from pams.order import LIMIT_ORDER, MARKET_ORDER, Order  # noqa: E402

# units of 1/16: tick -> den (matches Dens of TableTick.cfg)
TICK_DENS = [(0.125, 2), (0.25, 4), (0.5, 8), (1.0, 16), (2.0, 32), (5.0, 80)]
MAXREQ = 1024


def tick_grid(tier, seed):
    rng = random.Random(sub_seed(seed, "tick-grid"))
    hs = []
    for tick, den in TICK_DENS:
        reqs = list(range(1, MAXREQ + 1))
        if tier == "quick":
            reqs = sorted(rng.sample(reqs, 96) + [1, den - 1, den, den + 1, 2 * den, MAXREQ])
        for ci, chunk in enumerate(range(0, len(reqs), 64)):
            # (every other session: the market was set up with another tick size and given this one afterwards)
            s = BookSession(tick=tick, den=den, exact=True, p0=16 * den, setup_tick=(tick * 4 if ci % 2 else None))
            try:
                for req in reqs[chunk:chunk + 64]:
                    for buy in (True, False):
                        e = s.submit(buy, False, req, 1, 0)
                        if e["out"] == "ok":
                            s.cancel(e["id"])
                s.end()
            except Broken:
                pass
            h = s.header()
            h["src"] = "tick-grid"
            h["flavour"] = "tick=%s" % tick
            hs.append(h)
    hs.extend(near_grid(tier, seed))
    if tier == "thorough":
        hs.extend(decimal_grid(seed))
    return hs


def near_grid(tier, seed):
    """exactly representable prices a hair (2^-20 .. 2^-40 of the price unit) off a grid level, on either side:
    judged by the rational side condition of C19 (never more aggressive, moved by less than a tick)"""
    rng = random.Random(sub_seed(seed, "near-grid"))
    hs = []
    for tick in (1.0, 0.5, 0.25, 10.0):
        s = BookSession(tick=tick, den=2, exact=False, p0=200)
        try:
            for _ in range(24 if tier == "quick" else 200):
                lvl = rng.randint(2, 400)
                eps = 2.0 ** -rng.choice([20, 26, 30, 34, 40])
                px = lvl * tick + rng.choice([-1, 1]) * eps
                e = s.submit(rng.random() < 0.5, False, lvl * 2, 1, 0, req_float=px)
                if e["out"] == "ok":
                    s.cancel(e["id"])
            s.end()
        except Broken:
            pass
        h = s.header()
        h["src"] = "tick-near-grid"
        h["flavour"] = "tick=%s" % tick
        hs.append(h)
    return hs


def decimal_grid(seed):
    """ticks that are not exactly representable: the rational side conditions of C19 decide (c19 field)."""
    rng = random.Random(sub_seed(seed, "tick-decimal"))
    hs = []
    for tick in (0.1, 0.01, 0.00001, 0.3, 0.7, 1e-3):
        for _ in range(25):
            s = BookSession(tick=tick, den=2, exact=False, p0=2000)
            try:
                for _ in range(64):
                    lvl = rng.randint(1, 5000)
                    frac = rng.choice([0.0, 0.0, 0.25, 0.5, 0.9999, 1e-9])
                    px = lvl * tick + frac * tick
                    e = s.submit(rng.random() < 0.5, False, lvl * 2, 1, 0, req_float=px)
                    if e["out"] == "ok":
                        s.cancel(e["id"])
                s.end()
            except Broken:
                pass
            h = s.header()
            h["src"] = "tick-decimal"
            h["flavour"] = "tick=%s" % tick
            hs.append(h)
    return hs


def permutations(tier, seed):
    """All arrival orders of one multiset of orders inside one step, then a single round."""
    rng = random.Random(sub_seed(seed, "perm"))
    hs = []
    n_sets = 6 if tier == "quick" else 60
    den = 2
    mid = 10
    # price ties among orders accepted in the same step (ids 0, 1, 2 ... of a fresh market), swept by one aggressor
    fixed = [[(True, False, 10 * den, 1), (True, False, 11 * den, 1), (True, False, 10 * den, 1), (False, False, 9 * den, 3)],
             [(False, False, 10 * den, 1), (False, False, 9 * den, 1), (False, False, 10 * den, 1), (True, False, 11 * den, 3)],
             [(True, False, 10 * den, 2), (True, False, 10 * den, 1), (True, False, 12 * den, 1), (False, True, 0, 4)],
             [(False, True, 0, 1), (False, True, 0, 1), (False, False, 9 * den, 1), (True, False, 10 * den, 3)]]
    for k in range(n_sets + len(fixed)):
        size = rng.choice([3, 4]) if tier == "quick" else rng.choice([3, 4, 5])
        multiset = []
        for _ in range(size):
            mo = rng.random() < 0.2
            multiset.append((rng.random() < 0.5, mo, (mid + rng.randint(-2, 2)) * den, rng.randint(1, 3)))
        if k >= n_sets:
            multiset = fixed[k - n_sets]
            size = len(multiset)
        for perm in itertools.permutations(range(size)):
            s = BookSession(tick=1.0, den=den, exact=True, p0=mid * den)
            pre_tick = rng.random() < 0.5
            try:
                if pre_tick:
                    s.tick()
                for i in perm:
                    buy, mo, req, vol = multiset[i]
                    s.submit(buy, mo, req, vol, 0)
                s.match()
                s.end()
            except Broken:
                pass
            h = s.header()
            h["src"] = "permutation"
            h["flavour"] = "set%d" % k
            hs.append(h)
    return hs


def heap_stress(tier, seed):
    """One side holds 7-12 resting orders at distinct prices inserted in random order (a queue of 3+ levels);
    one or two non-best orders are cancelled; an opposite order priced at the k-th best level then sweeps part
    of that side in a single round.  Aimed at queue maintenance after removals (C02) and at rounds that stop
    early or trip their self-check (C03)."""
    rng = random.Random(sub_seed(seed, "heap-stress"))
    hs = []
    for i in range(800 if tier == "quick" else 8000):
        n = rng.randint(7, 12)
        buy_side = rng.random() < 0.5
        den, mid = 2, 40
        levels = rng.sample(range(1, 25), n)
        s = BookSession(tick=1.0, den=den, exact=True, p0=mid * den)
        try:
            ids = []
            for off in levels:
                lvl = mid - off if buy_side else mid + off
                e = s.submit(buy_side, False, lvl * den, 1, 0)
                ids.append((off, e["id"]))
            for _ in range(rng.choice([1, 1, 2])):
                best = min(ids)
                cand = [x for x in ids if x != best]
                victim = rng.choice(cand)
                # adversarial choice: a slot of the queue whose parent is WORSE than the queue's last element - an
                # implementation that moves the last element into the hole must then move it up as well
                q = (s.m.buy_order_book if buy_side else s.m.sell_order_book).priority_queue
                try:
                    slots = [i for i in range(1, len(q) - 1) if q[-1] < q[(i - 1) // 2]]
                except Exception:  # noqa: BLE001
                    slots = []
                if slots and rng.random() < 0.7:
                    oid = q[rng.choice(slots)].order_id
                    hit = [x for x in cand if x[1] == oid]
                    if hit:
                        victim = hit[0]
                s.cancel(victim[1])
                ids.remove(victim)
            if rng.random() < 0.5:
                # then the best orders go one after the other: what the quotes show depends on the queue having been repaired
                for _ in range(rng.randint(1, 3)):
                    if len(ids) <= 4:
                        break
                    best = min(ids)
                    s.cancel(best[1])
                    ids.remove(best)
            k = rng.randint(2, len(ids) - 1)
            off_k = sorted(ids)[k - 1][0]
            lvl = mid - off_k if buy_side else mid + off_k
            s.submit(not buy_side, False, lvl * den, len(ids), 0)
            s.match()
            s.end()
        except Broken:
            pass
        h = s.header()
        h["src"] = "heap-stress"
        h["flavour"] = "n=%d" % n
        hs.append(h)
    return hs


def histories(tier, seed, prop):
    return tick_grid(tier, seed) + permutations(tier, seed) + heap_stress(tier, seed)


# ------------------------------------------------------------------------------------------------ comparison table
def comparison_lines():
    """Universe of spec/MC_PamsOrder.cfg as real Order objects; every operator on every same-side pair."""
    lines = []
    # the model compares ranks 2 < 4 < 6; the real orders carry these ranks on three price scales: plain, adjacent
    # levels of a fine grid far from zero (relative difference 3e-10) and adjacent integers at 1e12
    scales = [("unit", lambda px: float(px)), ("fine", lambda px: 30000.0 + px * 0.00001), ("huge", lambda px: 1e12 + px)]
    for buy, (scale, fpx) in [(b, sc) for b in (True, False) for sc in scales]:
        orders = []
        for oid in (0, 1, 2, 3):
            for t0 in (0, 1, 2):
                orders.append((oid, 1, 0, t0))
                for px in (2, 4, 6):
                    orders.append((oid, 0, px, t0))
        objs = [Order(agent_id=0, market_id=0, is_buy=buy, kind=MARKET_ORDER if mo else LIMIT_ORDER, volume=1,
                      placed_at=t0, price=None if mo else fpx(px), order_id=oid) for (oid, mo, px, t0) in orders]
        mats = {k: [] for k in ("lt", "gt", "eq", "ne", "le", "ge")}
        for a in objs:
            rows = {k: [] for k in mats}
            for b in objs:
                for key, fn in (("lt", lambda x, y: x < y), ("gt", lambda x, y: x > y), ("eq", lambda x, y: x == y),
                                ("ne", lambda x, y: x != y), ("le", lambda x, y: x <= y), ("ge", lambda x, y: x >= y)):
                    try:
                        rows[key].append(int(bool(fn(a, b))))
                    except Exception:  # noqa: BLE001 - a comparison of two accepted orders of one side must not raise
                        rows[key].append(2)
            for k in mats:
                mats[k].append(rows[k])
        doc = {"buy": buy, "scale": scale, "orders": [list(o) for o in orders]}
        doc.update(mats)
        lines.append(doc)
    return lines


def comparison_verdicts():
    """Returns ([verdict per side], number of operator evaluations, TLC wall)."""
    lines = comparison_lines()
    path = os.path.join(WORK, "cmp-%d.ndjson" % os.getpid())
    with open(path, "w") as f:
        for d in lines:
            f.write(dumps(d) + "\n")
    try:
        res, r = tlc.validate_traces("TraceCmp", "TraceCmp.cfg", path, len(lines), workers=2, tag="TraceCmp")
    finally:
        os.remove(path)
    n_eval = sum(6 * len(d["orders"]) ** 2 for d in lines)
    return [res[i + 1][1].get("C02", "ok") for i in range(len(lines))], n_eval, r.wall, lines


def table_models():
    out = []
    for mod, cfg in (("TableTick", "TableTick.cfg"), ("MC_PamsOrder", "MC_PamsOrder.cfg")):
        r = tlc.run_tlc(mod, cfg, workers=4, timeout=600, tag=mod)
        if not r.ok:
            raise MachineryError("table model %s: %s" % (mod, r.violation or r.error))
        out.append({"module": mod, "states": r.distinct, "transitions": r.generated, "depth": r.depth, "wall_s": round(r.wall, 1)})
    return out
