"""Drives one REAL pams.market.Market and records a TraceBook history (one event per spec action).

Every observation goes through public API of Market / OrderBook / Order / Logger:
getters for quotes, depth and series, `priority_queue` for the per-order book snapshot, the Order
objects the "agent" (this driver) keeps, and a Logger subclass counting delivered records.
"""
import copy
import heapq

import numpy as np
import math
import random
import warnings
from fractions import Fraction

from .common import BADPX, NOPX, MachineryError, Units, import_pams

import_pams()
from pams.logs.base import CancelLog, ExecutionLog, ExpirationLog, Logger, OrderLog  # noqa: E402
from pams.market import Market  # noqa: E402
from pams.order import LIMIT_ORDER, MARKET_ORDER, Cancel, Order  # noqa: E402
from pams.simulator import Simulator  # noqa: E402

SINGLE_ACCESSORS = [
    "get_market_price", "get_mid_price", "get_last_executed_price", "get_fundamental_price",
    "get_executed_volume", "get_executed_total_price", "get_n_buy_order", "get_n_sell_order", "get_vwap",
]
PLURAL_ACCESSORS = [
    "get_market_prices", "get_mid_prices", "get_last_executed_prices", "get_fundamental_prices",
    "get_executed_volumes", "get_executed_total_prices", "get_n_buy_orders", "get_n_sell_orders",
]
SERIES_FOR_HISTORY = [
    "get_market_prices", "get_mid_prices", "get_last_executed_prices", "get_fundamental_prices",
    "get_executed_volumes", "get_executed_total_prices", "get_n_buy_orders", "get_n_sell_orders",
]


class CountLogger(Logger):
    """Counts the records handed to the logger, per kind, through write / bulk_write."""

    def __len__(self):        # a logger that counts as empty is still the logger
        return 0

    def __init__(self):
        super().__init__()
        self.cnt = [0, 0, 0, 0]
        self.expired = []

    def _count(self, log):
        if isinstance(log, OrderLog):
            self.cnt[0] += 1
        elif isinstance(log, CancelLog):
            self.cnt[1] += 1
        elif isinstance(log, ExecutionLog):
            self.cnt[2] += 1
        elif isinstance(log, ExpirationLog):
            self.cnt[3] += 1
            self.expired.append([int(log.order_id), int(log.volume), int(log.time)])

    def write(self, log):
        self._count(log)
        super().write(log)

    def bulk_write(self, logs):
        for log in logs:
            self._count(log)
        super().bulk_write(logs)

    def take(self):
        c, x = self.cnt, self.expired
        self.cnt, self.expired = [0, 0, 0, 0], []
        self.pending_logs = []
        return c, x


def c19_side_condition(req, tick, accepted, is_buy):
    """C19 for ticks that are not exactly representable: the property's own lemmas evaluated in exact
    rational arithmetic on the float values, with the few-ulp slack the property grants."""
    p, t, a = Fraction(req), Fraction(tick), Fraction(accepted)
    ulp = Fraction(math.ulp(max(abs(req), abs(accepted), tick)))
    lvl = a / t
    if abs(lvl - round(lvl)) > Fraction(1, 10 ** 9):
        return "off-grid"
    if (p / t).denominator == 1 and a != p:
        return "grid-price-changed"
    if is_buy and a > p + 2 * ulp:
        return "more-aggressive"
    if (not is_buy) and a < p - 2 * ulp:
        return "more-aggressive"
    if abs(a - p) >= t + 4 * ulp:
        return "moved-a-tick-or-more"
    return ""


def snap_market(m, U):
    """Projection of the observable state of a Market (public getters, priority_queue, best orders).
    Values that are not on the unit grid (only possible if an off-grid price was accepted) are logged as BADPX (None is NOPX; both far outside the price range): the
    trace specification then reports the mismatch instead of the harness failing."""
    def u(x):
        k = U.u(x, soft=True)
        return BADPX if k is None else k
    book = sorted([[o.order_id, o.volume] for o in m.buy_order_book.priority_queue + m.sell_order_book.priority_queue])
    bb, bs = m.buy_order_book.get_best_order(), m.sell_order_book.get_best_order()
    # the order in which a matching round would pop the queues (heappop on COPIES; the book is not touched)
    qb, qs = list(m.buy_order_book.priority_queue), list(m.sell_order_book.priority_queue)
    try:
        ord_b = [heapq.heappop(qb).order_id for _ in range(len(qb))]
        ord_s = [heapq.heappop(qs).order_id for _ in range(len(qs))]
    except Exception:  # noqa: BLE001 - comparing two resting orders raised: reported as a wrong queue order (C02)
        ord_b, ord_s = [-2], [-2]
    def soft(fn, bad):
        # the per-step statistics are read softly: a getter that raises (e.g. a series left too short by a clock jump) is a wrong
        # statistic (C08), and the history goes on so that what follows from it (a round that raises: C03) is judged as well
        try:
            return fn()
        except MachineryError:
            raise
        except Exception:  # noqa: BLE001
            return bad
    try:
        vw = m.get_vwap()
        num, den = sum(m.get_executed_total_prices()), sum(m.get_executed_volumes())
        vw_ok = (math.isnan(vw) if den == 0 else vw == num / den)
    except MachineryError:
        raise
    except Exception:  # noqa: BLE001
        vw_ok = False
    ev_ = soft(lambda: int(m.get_executed_volume()), -7)
    tot = soft(lambda: U.total(m.get_executed_total_price(), int(m.get_executed_volume()), soft=True), None)
    row = [u(m.get_market_price()), u(m.get_last_executed_price()), u(m.get_mid_price()),
           ev_, BADPX if tot is None else tot,
           soft(lambda: int(m.get_n_buy_order()), -7), soft(lambda: int(m.get_n_sell_order()), -7)]
    return {
        "book": book,
        "bB": -1 if bb is None else bb.order_id, "bS": -1 if bs is None else bs.order_id,
        "pB": u(m.get_best_buy_price()), "pS": u(m.get_best_sell_price()),
        "dB": [[u(p), int(v)] for p, v in m.get_buy_order_book().items()],
        "dS": [[u(p), int(v)] for p, v in m.get_sell_order_book().items()],
        "row": row, "clock": m.get_time(), "run": bool(m.is_running), "vw": bool(vw_ok),
        "oB": ord_b, "oS": ord_s,
    }


def _cell(fn, *a):
    """repr of what a getter of the code under test answers; a refusal (times skipped by Market._set_time hold no value for some
    series) is an answer as well and has to stay the same refusal"""
    try:
        return repr(fn(*a))
    except MachineryError:
        raise
    except Exception as ex:  # noqa: BLE001
        return "!" + type(ex).__name__


def history_rows(m, intern):
    """Interned rows of all eight series for every PAST time (C06: what was seen once must be seen forever)."""
    t = m.get_time()
    try:
        cols = [[repr(x) for x in getattr(m, g)(range(t))] for g in SERIES_FOR_HISTORY]
    except MachineryError:
        raise
    except Exception:  # noqa: BLE001 - some time in the range is refused: ask time by time
        cols = [[_cell(lambda i=i, g=g: getattr(m, g)([i])[0]) for i in range(t)] for g in SERIES_FOR_HISTORY]
    out = []
    for i in range(t):
        row = tuple(c[i] for c in cols) + index_columns(m, i) + tuple(_cell(getattr(m, g), i) for g in DERIVED_ACCESSORS)
        out.append(intern.setdefault(row, len(intern) + 1))
    return out


INDEX_ACCESSORS = ["get_market_index", "get_index", "get_fundamental_index"]
DERIVED_ACCESSORS = ["get_vwap"]            # derived from the recorded series: what it says about a past time stays as well


def index_columns(m, i):
    """an index market also answers for past times through its index accessors (computed from its components)"""
    if not all(hasattr(m, g) for g in INDEX_ACCESSORS):
        return ()
    return tuple(_cell(getattr(m, g), i) for g in INDEX_ACCESSORS)


def current_row(m, intern):
    """Interned row of the eight series at the CURRENT time (read just before the clock moves; 0 before the first step)."""
    t = m.get_time()
    if t < 0:
        return 0
    row = tuple(repr(getattr(m, g)([t])[0]) for g in SERIES_FOR_HISTORY) + index_columns(m, t) + tuple(_cell(getattr(m, g), t) for g in DERIVED_ACCESSORS)
    return intern.setdefault(row, len(intern) + 1)


# negative scenarios at construction (order.py: volume, ttl, kind / price combination): name -> overriding arguments
CTOR_NEG = {
    "zero-volume": lambda kw: {"volume": 0},
    "negative-volume": lambda kw: {"volume": -abs(kw["volume"])},
    "zero-ttl": lambda kw: {"ttl": 0},
    "negative-ttl": lambda kw: {"ttl": -1},
    "limit-without-price": lambda kw: {"kind": LIMIT_ORDER, "price": None},
    "market-with-price": lambda kw: {"kind": MARKET_ORDER, "price": 5.0},
}


def times_argument(t, salt, with_past):
    """the iterable of times handed to a plural accessor: it contains t (possibly a future time) in every shape an
    iterable of ints may take - list, tuple, ascending / descending range, t first or last"""
    shapes = [lambda: [0, t] if with_past else [t],
              lambda: (t, 0) if with_past else (t,),
              lambda: range(0, t + 1),
              lambda: range(t, -1, -1),
              lambda: [t, 0] if with_past else [t],
              lambda: range(t, t + 1)]
    return shapes[salt % len(shapes)]()


class Broken(Exception):
    """The code under test raised where no valid operation may raise; the history ends with a crash event."""


class BookSession:
    def __init__(self, tick=1.0, den=2, exact=True, p0=20, fund0=None, market_cls=None, setup_tick=None, base=0.0):
        self.U = Units(tick, den, exact, base=base)
        self.base = base
        self.tick_size, self.den, self.exact = tick, den, exact
        self.logger = CountLogger()
        sim = Simulator(prng=random.Random(0))
        cls = market_cls or Market
        self.m = cls(market_id=0, prng=random.Random(0), simulator=sim, name="m", logger=self.logger)
        self.p0 = p0
        self.fund0 = p0 if fund0 is None else fund0
        self.m.setup({"tickSize": tick if setup_tick is None else setup_tick, "marketPrice": self.U.f(p0)})
        if setup_tick is not None:
            self.m.tick_size = tick        # the tick size in force is the market's public attribute, whatever setup saw
        self.setup_tick = setup_tick
        self.m._update_time(next_fundamental_price=self.U.f(self.fund0))
        self.m._is_running = True
        self.logger.take()
        self.ev = []
        self.ops = []            # the inputs, replayable with replay_ops()
        self.objs = []          # every Order object ever created by the driver, by object number
        self.accepted = {}      # order_id -> Order
        self._intern = {}
        self.vwap_bad = 0
        self.nohist = False     # after Market._set_time skipped steps the series getters refuse the skipped times

    # ------------------------------------------------------------------ observation
    def header(self):
        return {"den": self.den, "p0": self.p0, "fund0": self.fund0, "exact": self.exact, "tick": self.tick_size,
                "setup_tick": self.setup_tick, "base": self.base, "ev": self.ev, "ops": self.ops}

    def _snap(self):
        return snap_market(self.m, self.U)

    def _emit(self, e):
        cnt, exp = self.logger.take()
        e["lg"] = cnt
        if e["k"] in ("tick", "jump"):
            e["exp"] = exp
        try:
            e.update(self._snap())
        except MachineryError:
            raise
        except Exception as ex:  # noqa: BLE001 - a getter of the code under test raised
            self._crash("getter-after-" + e["k"], ex)
        self.ev.append(e)
        return e

    def _crash(self, op, ex):
        self.ev.append({"k": "crash", "op": op, "exc": type(ex).__name__})
        raise Broken(op)

    # ------------------------------------------------------------------ operations
    def submit(self, buy, mo, req, vol, ttl, neg="", req_float=None):
        """req in units (ignored for market orders); ttl 0 = None. req_float overrides the float price
        (decimal ticks).  neg: "" | "resubmit" | "foreign"."""
        self.ops.append(["sub", bool(buy), bool(mo), int(req), int(vol), int(ttl), neg, req_float])
        price = None if mo else (req_float if req_float is not None else self.U.f(req))
        if price is not None and float(price).is_integer() and len(self.objs) % 3 == 0:
            price = int(price)          # an integral price handed over as a Python int is the same price
        if neg == "resubmit":
            cands = [i for i, x in enumerate(self.objs) if x.placed_at is not None]
            if not cands:
                self.ops.pop()
                return None
            obj = cands[req % len(cands)]
            o = self.objs[obj]
        elif neg in CTOR_NEG:
            # an order the constructor must refuse (volume, ttl, kind / price combination): if it can be built, it is handed
            # to the market, which is then the last line of defence
            kw = dict(agent_id=0, market_id=0, is_buy=buy, kind=MARKET_ORDER if mo else LIMIT_ORDER, volume=vol, price=price,
                      ttl=None if ttl == 0 else ttl)
            kw.update(CTOR_NEG[neg](kw))
            try:
                with warnings.catch_warnings():
                    warnings.simplefilter("ignore")
                    o = Order(**kw)
            except ValueError as ex:
                e = {"k": "sub", "obj": -1, "ag": 0, "buy": bool(buy), "mo": bool(mo), "req": 0, "vol": 0, "ttl": 0, "neg": neg,
                     "out": type(ex).__name__, "id": -1, "px": NOPX, "t0": -1, "c19": ""}
                return self._emit(e)
            self.objs.append(o)
            obj = len(self.objs) - 1
        else:
            # (a side computed with numpy arrives as numpy.bool_: it is the same side)
            # (a fractional time-to-live, as ArbitrageAgent hands its orderTimeLength through: t0 + ttl + 0.5 < now exactly when
            #  t0 + ttl < now for integer clocks, so the order lives as long as with the whole number)
            kind = MARKET_ORDER if mo else LIMIT_ORDER
            if len(self.objs) % 11 == 4:
                kind = copy.deepcopy(kind)      # an equal kind that is not the module's own object (copied / unpickled orders)
            o = Order(agent_id=0, market_id=1 if neg == "foreign" else 0, is_buy=(np.bool_(buy) if len(self.objs) % 5 == 1 else buy),
                      kind=kind, volume=vol, price=price,
                      ttl=None if ttl == 0 else (ttl + 0.5 if len(self.objs) % 7 == 3 else ttl))
            self.objs.append(o)
            obj = len(self.objs) - 1
        e = {"k": "sub", "obj": obj, "ag": 0, "buy": bool(o.is_buy), "mo": o.kind == MARKET_ORDER,
             "req": 0 if mo else int(req), "vol": int(o.volume), "ttl": int(o.ttl or 0), "neg": neg,
             "out": "ok", "id": -1, "px": NOPX, "t0": -1, "c19": ""}
        try:
            log = self.m._add_order(o)
            e["id"], e["t0"] = int(log.order_id), int(log.time)
            if not e["mo"]:
                k = self.U.u(log.price, soft=True)
                if k is None:
                    e["px"], e["c19"] = BADPX, "off-grid"
                else:
                    e["px"] = k
                if not self.exact:
                    e["req"] = e["px"]
                    e["c19"] = e["c19"] or c19_side_condition(price, self.tick_size, log.price, o.is_buy)
                if o.price != log.price:
                    e["c19"] = e["c19"] or "order-object-price-differs-from-record"
            if neg == "":
                self.accepted[o.order_id] = o
        except Exception as ex:  # noqa: BLE001 - outcome is recorded, the trace spec judges it
            e["out"] = type(ex).__name__
        return self._emit(e)

    def cancel(self, oid):
        self.ops.append(["can", int(oid)])
        o = self.accepted[oid]
        e = {"k": "can", "id": int(oid), "out": "ok", "vol": 0}
        try:
            log = self.m._cancel_order(Cancel(order=o))
            e["vol"] = int(log.volume)
        except Exception as ex:  # noqa: BLE001
            e["out"] = type(ex).__name__
        return self._emit(e)

    def tick(self, fund=None):
        fund = self.fund0 if fund is None else fund
        self.ops.append(["tick", int(fund)])
        try:
            pre = 0 if self.nohist else current_row(self.m, self._intern)
        except MachineryError:
            raise
        except Exception:  # noqa: BLE001 - a getter raised: the snapshot after the step reports it
            pre = 0
        try:
            self.m._update_time(next_fundamental_price=self.U.f(fund))
        except Exception as ex:  # noqa: BLE001
            self._crash("tick", ex)
        e = {"k": "tick", "fund": int(fund), "pre": pre, "nh": bool(self.nohist)}
        e = self._emit(e)
        try:
            e["hist"] = [] if self.nohist else self._history()
        except MachineryError:
            raise
        except Exception as ex:  # noqa: BLE001
            self.ev.pop()
            self._crash("history-getters", ex)
        return e

    def jump(self, k, fund=None):
        """Market._set_time: the clock jumps k >= 2 steps at once (orders whose life ended in between expire now)"""
        fund = self.fund0 if fund is None else fund
        self.ops.append(["jump", int(k), int(fund)])
        to = self.m.get_time() + int(k)
        try:
            pre = current_row(self.m, self._intern)
        except MachineryError:
            raise
        except Exception:  # noqa: BLE001
            pre = 0
        t_old = self.m.get_time()
        try:
            self.m._set_time(time=to, next_fundamental_price=self.U.f(fund))
        except Exception as ex:  # noqa: BLE001
            self._crash("tick", ex)
        e = self._emit({"k": "jump", "to": int(to), "fund": int(fund), "pre": pre, "told": int(t_old)})
        try:
            # what the finished steps said stays; the skipped times hold whatever they hold from now on
            e["hist"] = self._history()
        except MachineryError:
            raise
        except Exception as ex:  # noqa: BLE001
            self.ev.pop()
            self._crash("history-getters", ex)
        return e

    def _history(self):
        return history_rows(self.m, self._intern)

    def match(self):
        self.ops.append(["match"])
        e = {"k": "match", "raised": "", "fills": []}
        try:
            logs = self.m._execution()
            fills = []
            for g in logs:
                k = self.U.u(g.price, soft=True)
                fills.append([int(g.buy_order_id), int(g.sell_order_id), BADPX if k is None else k, int(g.volume)])
            e["fills"] = fills
        except Exception as ex:  # noqa: BLE001
            e["raised"] = type(ex).__name__
        return self._emit(e)

    def set_running(self, on):
        self.ops.append(["run", bool(on)])
        self.m._is_running = bool(on)
        return self._emit({"k": "run", "on": bool(on)})

    def probe(self, acc, t, plural_with_past=False):
        m = self.m
        self.ops.append(["probe", acc, int(t), bool(plural_with_past)])
        try:
            if acc in PLURAL_ACCESSORS:
                getattr(m, acc)(times_argument(t, len(self.ops), plural_with_past))
            else:
                getattr(m, acc)(t)
            res = "value"
        except AssertionError:
            res = "refused"
        except Exception as ex:  # noqa: BLE001
            res = "error-" + type(ex).__name__
        e = {"k": "probe", "acc": acc, "t": int(t), "res": res}
        self.ev.append(e)
        return e

    def end(self):
        ords = [[int(i), int(o.volume), bool(o.is_canceled)] for i, o in sorted(self.accepted.items())]
        e = {"k": "end", "ords": ords}
        self.ev.append(e)
        return e


def replay_ops(hdr, market_cls=None):
    """Re-execute the inputs of a recorded history against the current tree; returns the new history."""
    s = BookSession(tick=hdr["tick"], den=hdr["den"], exact=hdr["exact"], p0=hdr["p0"], fund0=hdr["fund0"],
                    market_cls=market_cls, setup_tick=hdr.get("setup_tick"), base=hdr.get("base", 0.0))
    try:
        _replay_into(s, hdr)
        s.end()
    except Broken:
        pass
    h = s.header()
    for key in ("flavour", "seed", "src"):
        if key in hdr:
            h[key] = hdr[key]
    return h


def _replay_into(s, hdr):
    for op in hdr["ops"]:
        k = op[0]
        if k == "sub":
            s.submit(op[1], op[2], op[3], op[4], op[5], neg=op[6], req_float=op[7])
        elif k == "can":
            if op[1] in s.accepted:
                s.cancel(op[1])
        elif k == "tick":
            s.tick(op[1])
        elif k == "jump":
            s.jump(op[1], op[2])
        elif k == "match":
            s.match()
        elif k == "run":
            s.set_running(op[1])
        elif k == "probe":
            s.probe(op[1], op[2], op[3])
