"""Known findings (/verif/known_findings.txt): read-only at run time.

Lines:
  open: property=<id> clause=<clause> [key=value ...] :: <what fails>
  fixed: property=<id> <commit> <what failed>
An `open` entry matches a verdict when the property, the clause and every key=value of its signature
agree with the failing scenario; `fixed` entries suppress nothing.
"""
import os

from .common import VERIF

PATH = os.path.join(VERIF, "known_findings.txt")


def load():
    out = []
    if not os.path.exists(PATH):
        return out
    for ln in open(PATH):
        ln = ln.strip()
        if not ln.startswith("open:"):
            continue
        head, _, what = ln[5:].partition("::")
        kv = dict(t.split("=", 1) for t in head.split() if "=" in t)
        out.append({"property": kv.pop("property"), "clause": kv.pop("clause"), "sig": kv, "what": what.strip()})
    return out


def match(findings, prop, clause, sig):
    for f in findings:
        if f["property"] == prop and f["clause"] == clause and all(str(sig.get(k)) == v for k, v in f["sig"].items()):
            return f
    return None
