"""./check selftest: demonstrates that the specification is bound to the code.

(i)  source mutants: each small change is applied to a scratch copy of /repo (outside /repo and /verif), the
     quick tier of the expected property is run against the copy (PAMS_REPO), and detection is required;
(ii) the unchanged tree must pass the same checks (done by the normal tiers).
The scratch copy is removed after each mutant.
"""
import os
import shutil
import subprocess
import sys
import tempfile

from .common import VERIF

# (id, file, old text, new text, property expected to report the violation)
MUTANTS = [
    ("m01-price-later-order", "pams/market.py",
     "                        if cast(int, buy_order.placed_at)\n                        < cast(int, sell_order.placed_at)",
     "                        if cast(int, buy_order.placed_at)\n                        > cast(int, sell_order.placed_at)", "C01"),
    ("m02-id-tiebreak-reversed", "pams/market.py",
     "                    if buy_order.order_id < sell_order.order_id:\n                        price = buy_order.price",
     "                    if buy_order.order_id > sell_order.order_id:\n                        price = buy_order.price", "C01"),
    ("m03-sell-priority-swapped", "pams/order.py",
     "                        return (\n                            (self.price > other.price)\n                            if gt\n                            else (self.price < other.price)\n                        )",
     "                        return (\n                            (self.price < other.price)\n                            if gt\n                            else (self.price > other.price)\n                        )", "C02"),
    ("m04-no-heapify-after-remove", "pams/order_book.py",
     "            self.priority_queue.remove(order)\n            heapq.heapify(self.priority_queue)",
     "            self.priority_queue.remove(order)", "C02"),
    ("m05-break-on-equal", "pams/market.py",
     "                and buy_order.price < sell_order.price\n            ):\n                break",
     "                and buy_order.price <= sell_order.price\n            ):\n                break", "C03"),
    ("m06-expiry-off-by-one", "pams/order_book.py",
     "[value for key, value in self.expire_time_list.items() if key < self.time]",
     "[value for key, value in self.expire_time_list.items() if key <= self.time]", "C04"),
    ("m07-resubmission-accepted", "pams/market.py",
     "        if order.placed_at is not None:\n            raise ValueError(\"the order is already submitted\")\n        if order.order_id is not None:\n            raise ValueError(\"the order is already submitted\")",
     "        if order.placed_at is not None and order.order_id is None:\n            raise ValueError(\"the order is already submitted\")", "C04"),
    ("m08-price-moves-while-halted", "pams/market.py",
     "        if self.is_running:\n            if self._last_executed_prices[self.time] is not None:\n                self._market_prices[self.time] = self._last_executed_prices[self.time]",
     "        if True:\n            if self._last_executed_prices[self.time] is not None:\n                self._market_prices[self.time] = self._last_executed_prices[self.time]", "C08"),
    ("m09-vwap-slice", "pams/market.py",
     "        return sum(self._executed_total_prices[: time + 1]) / sum(\n            self._executed_volumes[: time + 1]\n        )",
     "        return sum(self._executed_total_prices[: time + 1]) / sum(\n            self._executed_volumes[:time]\n        )", "C08"),
    ("m10-sell-rounds-down", "pams/market.py",
     "            return self.convert_to_tick_level_rounded_upper(price=price)",
     "            return self.convert_to_tick_level_rounded_lower(price=price)", "C19"),
    ("m11-mid-not-refreshed-on-cancel", "pams/market.py",
     "        if cancel.placed_at is None:\n            raise AssertionError\n        self._update_market_price()",
     "        if cancel.placed_at is None:\n            raise AssertionError", "C08"),
]


def run(tier="quick"):
    fails = 0
    only = os.environ.get("SELFTEST_ONLY")
    for mid, rel, old, new, prop in MUTANTS:
        if only and only not in mid:
            continue
        d = tempfile.mkdtemp(prefix="pams-mut-", dir="/tmp")
        try:
            shutil.copytree("/repo/pams", os.path.join(d, "pams"))
            p = os.path.join(d, rel)
            src = open(p).read()
            if old not in src:
                print("SELFTEST %s: pattern not found in %s (source changed?)" % (mid, rel))
                fails += 1
                continue
            open(p, "w").write(src.replace(old, new, 1))
            env = dict(os.environ, PAMS_REPO=d, VERIF_TRACES_ONLY="1")
            r = subprocess.run([sys.executable, "-m", "harness.main", prop, "--tier", "quick", "--no-evidence"],
                               cwd=VERIF, env=env, stdout=subprocess.PIPE, stderr=subprocess.STDOUT, text=True)
            caught = r.returncode == 1 and ("VIOLATION property=%s" % prop) in r.stdout
            clause = ""
            for ln in r.stdout.splitlines():
                if ln.startswith("  clause"):
                    clause = ln.strip()
                    break
            print("SELFTEST %s: %s by %s %s" % (mid, "caught" if caught else "MISSED (rc=%d)" % r.returncode, prop, clause))
            if not caught:
                fails += 1
                print(r.stdout[-800:])
        finally:
            shutil.rmtree(d, ignore_errors=True)
    print("selftest: %d mutants, %d not detected" % (len(MUTANTS), fails))
    return 1 if fails else 0
