"""./check selftest: demonstrates that the specification is bound to the code.

(i)  source mutants: each small change is applied to a scratch copy of /repo (outside /repo and /verif), the
     quick tier of the expected property is run against the copy (PAMS_REPO), and detection is required;
(ii) the unchanged tree must pass the same checks (done by the normal tiers).
The scratch copy is removed after each mutant.
"""
import os
import shutil
import subprocess
import sys
import tempfile

from .common import VERIF

# (id, file, old text, new text, property expected to report the violation)
MUTANTS = [
    ("m01-price-later-order", "pams/market.py",
     "                        if cast(int, buy_order.placed_at)\n                        < cast(int, sell_order.placed_at)",
     "                        if cast(int, buy_order.placed_at)\n                        > cast(int, sell_order.placed_at)", "C01"),
    ("m02-id-tiebreak-reversed", "pams/market.py",
     "                    if buy_order.order_id < sell_order.order_id:\n                        price = buy_order.price",
     "                    if buy_order.order_id > sell_order.order_id:\n                        price = buy_order.price", "C01"),
    ("m03-sell-priority-swapped", "pams/order.py",
     "                        return (\n                            (self.price > other.price)\n                            if gt\n                            else (self.price < other.price)\n                        )",
     "                        return (\n                            (self.price < other.price)\n                            if gt\n                            else (self.price > other.price)\n                        )", "C02"),
    ("m04-no-heapify-after-remove", "pams/order_book.py",
     "            self.priority_queue.remove(order)\n            heapq.heapify(self.priority_queue)",
     "            self.priority_queue.remove(order)", "C02"),
    ("m05-break-on-equal", "pams/market.py",
     "                and buy_order.price < sell_order.price\n            ):\n                break",
     "                and buy_order.price <= sell_order.price\n            ):\n                break", "C03"),
    ("m06-expiry-off-by-one", "pams/order_book.py",
     "[value for key, value in self.expire_time_list.items() if key < self.time]",
     "[value for key, value in self.expire_time_list.items() if key <= self.time]", "C04"),
    ("m07-resubmission-accepted", "pams/market.py",
     "        if order.placed_at is not None:\n            raise ValueError(\"the order is already submitted\")\n        if order.order_id is not None:\n            raise ValueError(\"the order is already submitted\")",
     "        if order.placed_at is not None and order.order_id is None:\n            raise ValueError(\"the order is already submitted\")", "C04"),
    ("m08-price-moves-while-halted", "pams/market.py",
     "        if self.is_running:\n            if self._last_executed_prices[self.time] is not None:\n                self._market_prices[self.time] = self._last_executed_prices[self.time]",
     "        if True:\n            if self._last_executed_prices[self.time] is not None:\n                self._market_prices[self.time] = self._last_executed_prices[self.time]", "C08"),
    ("m09-vwap-slice", "pams/market.py",
     "        return sum(self._executed_total_prices[: time + 1]) / sum(\n            self._executed_volumes[: time + 1]\n        )",
     "        return sum(self._executed_total_prices[: time + 1]) / sum(\n            self._executed_volumes[:time]\n        )", "C08"),
    ("m10-sell-rounds-down", "pams/market.py",
     "            return self.convert_to_tick_level_rounded_upper(price=price)",
     "            return self.convert_to_tick_level_rounded_lower(price=price)", "C19"),
    ("r01-seller-credited-price-only", "pams/simulator.py",
     "            sell_agent.cash_amount += price * volume", "            sell_agent.cash_amount += price", "C05"),
    ("r02-hft-fills-not-applied", "pams/runners/sequential.py",
     "                            self.simulator._update_agents_for_execution(\n                                execution_logs=logs\n                            )\n",
     "", "C05"),
    ("r03-buyer-notified-twice", "pams/runners/sequential.py",
     "                        agent = self.simulator.id2agent[execution_log.sell_agent_id]",
     "                        agent = self.simulator.id2agent[execution_log.buy_agent_id]", "C11"),
    ("r04-normal-cap-off-by-one", "pams/runners/sequential.py",
     "            if n_orders >= session.max_normal_orders:", "            if n_orders > session.max_normal_orders:", "C09"),
    ("r05-hft-gate-flipped", "pams/runners/sequential.py",
     "            if session.high_frequency_submission_rate < self._prng.random():",
     "            if session.high_frequency_submission_rate > self._prng.random():", "C09"),
    ("r06-no-round-after-hft-orders", "pams/runners/sequential.py",
     "                        if session.with_order_execution:\n                            logs = market._execution()",
     "                        if False:\n                            logs = market._execution()", "C09"),
    ("r07-executions-logged-twice", "pams/market.py",
     "        if self.remain_executable_orders():\n            raise AssertionError\n        return logs",
     "        if self.remain_executable_orders():\n            raise AssertionError\n        if self.logger is not None:\n            self.logger.bulk_write(logs=logs)\n        return logs", "C10"),
    ("r08-cancel-not-logged", "pams/market.py",
     "            ttl=cancel.order.ttl,\n        )\n        if self.logger is not None:\n            log.read_and_write(logger=self.logger)",
     "            ttl=cancel.order.ttl,\n        )", "C10"),
    ("r09-after-session-hook-time", "pams/simulator.py",
     "        time: int = session.session_start_time + session.iteration_steps - 1",
     "        time: int = session.session_start_time + session.iteration_steps", "C13"),
    ("r10-class-filter-ignored", "pams/simulator.py",
     "            if not isinstance(check_object, class_requirement):\n                return False",
     "            if not isinstance(check_object, class_requirement):\n                pass", "C13"),
    ("r11-index-stepped-first", "pams/simulator.py",
     "        for market in filter(lambda x: not isinstance(x, IndexMarket), markets):\n            self._update_time_on_market(market=market)\n        for market in filter(lambda x: isinstance(x, IndexMarket), markets):",
     "        for market in filter(lambda x: isinstance(x, IndexMarket), markets):\n            self._update_time_on_market(market=market)\n        for market in filter(lambda x: not isinstance(x, IndexMarket), markets):", "C06"),
    ("r12-session-start-not-accumulated", "pams/runners/sequential.py",
     "            session_start_time += session_setting[\"iterationSteps\"]",
     "            session_start_time = session_setting[\"iterationSteps\"]", "C06"),
    ("r13-future-guard-off-by-one", "pams/market.py",
     "        if time > self.time:\n            raise AssertionError(\"Cannot refer the future parameters\")\n        result = parameters[time]",
     "        if time > self.time + 1:\n            raise AssertionError(\"Cannot refer the future parameters\")\n        result = parameters[time]", "C06"),
    ("r14-storage-extension-loses-history", "pams/market.py",
     "        self._executed_volumes = self._executed_volumes + [\n            0 for _ in range(length - len(self._executed_volumes))\n        ]",
     "        self._executed_volumes = [0 for _ in range(length)]", "C06"),
    ("t01-settings-not-copied", "pams/utils/json_extends.py",
     "    results = target_json.copy()", "    results = target_json", "C07"),
    ("t02-uniform-offset", "pams/utils/json_random.py",
     "        return self.prng.random() * (max_value - min_value) + min_value",
     "        return self.prng.random() * (max_value - min_value) + max_value", "C18"),
    ("t03-market-maker-full-spread", "pams/agents/market_maker_agent.py",
     "            self.target_market.get_fundamental_price() * self.net_interest_spread * 0.5",
     "            self.target_market.get_fundamental_price() * self.net_interest_spread * 1.0", "C20"),
    ("t04-arbitrage-threshold-inclusive", "pams/agents/arbitrage_agent.py",
     "            and market_index - market_price > self.order_threshold_price",
     "            and market_index - market_price >= self.order_threshold_price", "C20"),
    ("t05-regeneration-drops-kept-value", "pams/fundamentals.py",
     "                self.prices[market_id][: self._generated_until + 1] + price_seq.tolist()",
     "                self.prices[market_id][: self._generated_until] + price_seq.tolist()", "C12"),
    ("t06-upper-cholesky", "pams/fundamentals.py",
     "            cholesky_matrix = cholesky(cov_matrix, lower=True)",
     "            cholesky_matrix = cholesky(cov_matrix, lower=False)", "C12"),
    ("t07-shock-scale", "pams/events/fundamental_price_shock.py",
     "        market.change_fundamental_price(scale=1 + self.price_change_rate)",
     "        market.change_fundamental_price(scale=1 - self.price_change_rate)", "C14"),
    ("t08-clip-reversed", "pams/events/price_limit_rule.py",
     "            limited_price: float = min(max(order_price, min_price), max_price)",
     "            limited_price: float = max(min(order_price, min_price), max_price)", "C15"),
    ("t09-halt-line-does-not-move", "pams/events/trading_halt_rule.py",
     "reference_price * self.trigger_change_rate * (self.activation_count + 1)", "reference_price * self.trigger_change_rate * 1", "C16"),
    ("t10-index-from-fundamentals", "pams/index_market.py",
     "            total_value += market.get_market_price(time=time) * outstanding_shares",
     "            total_value += market.get_fundamental_price(time=time) * outstanding_shares", "C17"),
    ("t11-fcn-noise-from-global-generator", "pams/agents/fcn_agent.py",
     "        noise_log_return: float = self.noise_scale * self.prng.gauss(mu=0.0, sigma=1.0)",
     "        noise_log_return: float = self.noise_scale * random.gauss(0.0, 1.0)", "C07"),
    ("s01-logger-queue-not-cleared", "pams/logs/base.py",
     "        self.process(logs=self.pending_logs)\n        self.pending_logs = []", "        self.process(logs=self.pending_logs)", "C10"),
    ("s02-bulk-write-keeps-first-only", "pams/logs/base.py",
     "        self.pending_logs.extend(logs)", "        self.pending_logs.extend(logs[:1])", "C10"),
    ("s03-hook-filed-per-listed-time", "pams/simulator.py",
     "        for time_ in dict.fromkeys(times):", "        for time_ in times:", "C13"),
    ("s04-same-hook-object-accepted-again", "pams/simulator.py",
     "        if event_hook in self.event_hooks:\n            raise ValueError(\"event_hook is already registered\")", "        pass", "C13"),
    ("s05-spoof-guard-needs-two", "pams/runners/sequential.py",
     "                if sum([order.agent_id != agent.agent_id for order in orders]) > 0:",
     "                if sum([order.agent_id != agent.agent_id for order in orders]) > 1:", "C04"),
    ("s06-zero-price-bid-is-falsy", "pams/market.py",
     "                buy_order.price is not None\n                and sell_order.price is not None\n                and buy_order.price < sell_order.price",
     "                buy_order.price\n                and sell_order.price\n                and buy_order.price < sell_order.price", "C01"),
    ("m11-mid-not-refreshed-on-cancel", "pams/market.py",
     "        if cancel.placed_at is None:\n            raise AssertionError\n        self._update_market_price()",
     "        if cancel.placed_at is None:\n            raise AssertionError", "C08"),
]


def run(tier="quick"):
    fails = 0
    only = os.environ.get("SELFTEST_ONLY")
    for mid, rel, old, new, prop in MUTANTS:
        if only and only not in mid:
            continue
        d = tempfile.mkdtemp(prefix="pams-mut-", dir="/tmp")
        try:
            shutil.copytree("/repo/pams", os.path.join(d, "pams"))
            p = os.path.join(d, rel)
            src = open(p).read()
            if old not in src:
                print("SELFTEST %s: pattern not found in %s (source changed?)" % (mid, rel))
                fails += 1
                continue
            open(p, "w").write(src.replace(old, new, 1))
            env = dict(os.environ, PAMS_REPO=d, VERIF_TRACES_ONLY="1")
            r = subprocess.run([sys.executable, "-m", "harness.main", prop, "--tier", "quick", "--no-evidence"],
                               cwd=VERIF, env=env, stdout=subprocess.PIPE, stderr=subprocess.STDOUT, text=True)
            caught = r.returncode == 1 and ("VIOLATION property=%s" % prop) in r.stdout
            clause = ""
            for ln in r.stdout.splitlines():
                if ln.startswith("  clause"):
                    clause = ln.strip()
                    break
            print("SELFTEST %s: %s by %s %s" % (mid, "caught" if caught else "MISSED (rc=%d)" % r.returncode, prop, clause))
            if not caught:
                fails += 1
                print(r.stdout[-800:])
        finally:
            shutil.rmtree(d, ignore_errors=True)
    print("selftest: %d mutants, %d not detected" % (len(MUTANTS), fails))
    return 1 if fails else 0
