"""C07 reproducibility: the same (configuration, seed) executed under different environments must give the
same observable record; TraceDet (TLC) steps through pairs of records and names the first difference."""
import glob
import json
import os
import random
import subprocess
import sys
import time

from . import evidence, judge, tlc
from .common import REPO, VERIF, WORK, MachineryError, dumps, sub_seed


def sample_configs(steps):
    out = []
    for f in sorted(glob.glob(os.path.join(REPO, "samples", "*", "config*.json"))):
        cfg = json.load(open(f))
        for s in cfg["simulation"]["sessions"]:
            s["iterationSteps"] = min(int(s["iterationSteps"]), steps)
            s["withPrint"] = False
        # shocks / rules keep their trigger times inside the shortened sessions
        for k, v in cfg.items():
            if isinstance(v, dict) and "triggerTime" in v:
                v["triggerTime"] = min(int(v["triggerTime"]), max(0, steps - 2))
            if isinstance(v, dict) and isinstance(v.get("numAgents"), int):
                v["numAgents"] = min(v["numAgents"], 30)
        out.append((os.path.relpath(f, REPO), cfg))
    return out


def generated_configs(n, seed):
    rng = random.Random(sub_seed(seed, "det-configs"))
    out = []
    for i in range(n):
        nm = rng.choice([1, 2, 3, 3])
        if i % 6 == 0:
            nm = 1          # exactly one market with a stochastic fundamental (degenerate 1 x 1 correlation block)
        elif i % 6 == 1:
            nm = 2          # one stochastic and one constant fundamental
        elif i % 6 == 2:
            nm = 3          # two index markets over overlapping components, one arbitrageur
        names = ["S%d" % j for j in range(nm)]
        cfg = {"simulation": {"markets": list(names), "agents": ["F", "MM"], "sessions": [], "fundamentalCorrelations": {"pairwise": []}}}
        for j, nme in enumerate(names):
            cfg[nme] = {"class": "Market", "tickSize": rng.choice([0.01, 0.00001, 1.0]), "marketPrice": 300.0 + 10 * j,
                        "fundamentalVolatility": rng.choice([0.0, 0.001, 0.01, 0.005]), "fundamentalDrift": rng.choice([0.0, 0.0001]),
                        "outstandingShares": 1000}
        if i % 6 == 0:
            cfg[names[0]]["fundamentalVolatility"] = 0.01
        elif i % 6 == 1:
            cfg[names[0]]["fundamentalVolatility"], cfg[names[1]]["fundamentalVolatility"] = 0.0, 0.005
        vol_names = [x for x in names if cfg[x]["fundamentalVolatility"] > 0]
        if len(vol_names) >= 2 and i % 2 == 0:
            cfg["simulation"]["fundamentalCorrelations"]["pairwise"].append([vol_names[0], vol_names[1], rng.choice([0.5, -0.3, 0.9])])
        allm = list(names)
        if nm >= 2 and (rng.random() < 0.6 or i % 6 == 2):
            cfg["IDX"] = {"class": "IndexMarket", "tickSize": 0.01, "marketPrice": 305.0, "markets": list(names)}
            cfg["simulation"]["markets"].append("IDX")
            allm.append("IDX")
            if nm == 3 and (rng.random() < 0.7 or i % 6 == 2):
                # two index markets over overlapping components, one arbitrageur with access to both
                cfg["IDX"]["markets"] = names[:2]
                cfg["IDX2"] = {"class": "IndexMarket", "tickSize": 0.01, "marketPrice": 318.0, "markets": names[1:]}
                if i % 6 == 2:
                    cfg["IDX"]["markets"] = list(names)                  # three components: their order is the configured one
                cfg["IDX"]["requires"] = list(reversed(cfg["IDX"]["markets"]))       # the legacy key (ignored with a warning)
                cfg["IDX2"]["requires"] = list(cfg["IDX2"]["markets"])
                cfg["simulation"]["markets"].append("IDX2")
                allm.append("IDX2")
            cfg["ARB"] = {"class": "ArbitrageAgent", "numAgents": 3, "markets": list(allm), "assetVolume": [40, 60], "cashAmount": 150000,
                          "orderVolume": 1, "orderThresholdPrice": 1.0}
            cfg["simulation"]["agents"].append("ARB")
        cfg["F"] = {"class": rng.choice(["FCNAgent", "MarketShareFCNAgent"]), "numAgents": rng.randint(5, 25), "markets": list(allm),
                    "assetVolume": rng.choice([50, [10, 200], {"uniform": [20, 80]}]), "cashAmount": rng.choice([10000, {"uniform": [5000, 20000]}, {"normal": [10000, 500]}]),
                    "fundamentalWeight": {"expon": [1.0]}, "chartWeight": {"expon": [0.2]},
                    "noiseWeight": {"expon": [1.0]}, "noiseScale": 0.001, "timeWindowSize": [10, 30], "orderMargin": [0.0, 0.1],
                    "marginType": rng.choice(["fixed", "normal"])}
        cfg["MM"] = {"class": "MarketMakerAgent", "numAgents": 1, "markets": [names[0]], "assetVolume": 50, "cashAmount": 10000,
                     "targetMarket": names[0], "orderTimeLength": 2,
                     # a constant, a range (larger bound first: accepted as it is, and left as it is), a named distribution:
                     # whatever is drawn comes from the generator handed to the runner
                     "netInterestSpread": [0.02, [0.03, 0.01], {"uniform": [0.01, 0.03]}, {"uniform": [0.04, 0.02]}][i % 4]}
        if rng.random() < 0.6:
            # inheritance meets id ranges: the parent declares a from/to range, is instantiated itself, and a listed child
            # extends it with its own range (listed before or after its parent)
            k = cfg["F"].pop("numAgents")
            cfg["F"]["from"], cfg["F"]["to"] = 0, k - 1
            cfg["F2"] = {"extends": "F", "from": 50, "to": 50 + rng.randint(0, 3), "cashAmount": 7000}
            ags = cfg["simulation"]["agents"]
            ags.insert(ags.index("F") + rng.choice([0, 1]), "F2")
        if i % 6 in (3, 4):
            # a market GROUP declared with a count (no `extends`): the runner expands it from a copy of the entry
            cfg["XG"] = {"class": "Market", "tickSize": 0.01, "marketPrice": 200.0, "numMarkets": 2, "fundamentalVolatility": 0.0,
                         "outstandingShares": 1000}
            if i % 6 == 4:
                cfg["XG"]["prefix"] = "xg"
            cfg["simulation"]["markets"].append("XG")
            cfg["F"]["markets"] = list(cfg["F"]["markets"]) + ["XG"]
        evs = []
        if rng.random() < 0.7:
            cfg["UE"] = {"class": "DetEvent"}          # a user-written event hooked on everything (registered by the worker)
            evs.append("UE")
        if rng.random() < 0.7:
            cfg["FS"] = {"class": "FundamentalPriceShock", "target": names[0], "triggerTime": 3, "priceChangeRate": -0.1, "shockTimeLength": 2}
            evs.append("FS")
        if rng.random() < 0.5:
            cfg["HR"] = {"class": "TradingHaltRule", "targetMarkets": [names[0]], "triggerChangeRate": 0.02, "haltingTimeLength": 3}
            evs.append("HR")
        if rng.random() < 0.5:
            cfg["PL"] = {"class": "PriceLimitRule", "targetMarkets": [names[-1]], "triggerChangeRate": 0.05}
            evs.append("PL")
        if rng.random() < 0.5:
            cfg["OM"] = {"class": "OrderMistakeShock", "target": names[0], "triggerTime": 5, "priceChangeRate": -0.05, "orderVolume": 20, "orderTimeLength": 5}
            evs.append("OM")
        cfg["simulation"]["sessions"] = [
            {"sessionName": 0, "iterationSteps": rng.randint(5, 15), "withOrderPlacement": True, "withOrderExecution": False, "withPrint": False,
             "maxNormalOrders": 5, "maxHighFrequencyOrders": 1},
            {"sessionName": 1, "iterationSteps": rng.randint(20, 40), "withOrderPlacement": True, "withOrderExecution": True, "withPrint": False,
             "maxNormalOrders": 3, "maxHighFrequencyOrders": 2, "highFrequencySubmitRate": rng.choice([0.5, 1.0]), "events": evs}]
        out.append(("generated-%d" % i, cfg))
    return out


def run_worker(cfg, seed, mode, hashseed, keep=False):
    os.makedirs(WORK, exist_ok=True)
    import uuid
    job = os.path.join(WORK, "detjob-%d-%s.json" % (os.getpid(), uuid.uuid4().hex))
    with open(job, "w") as f:
        json.dump({"cfg": cfg, "seed": seed, "mode": mode, "keep": keep}, f)
    env = dict(os.environ, PYTHONHASHSEED=str(hashseed))
    try:
        p = subprocess.run([sys.executable, "-m", "harness.det_worker", job], cwd=VERIF, env=env, stdout=subprocess.PIPE,
                           stderr=subprocess.PIPE, text=True, timeout=1800)
    finally:
        os.remove(job)
    if p.returncode != 0:
        return {"error": (p.stderr or "")[-400:], "digests": [], "smut": False}
    return json.loads(p.stdout.strip().splitlines()[-1])


def check(prop, tier, seed, t0):
    steps = 60 if tier == "quick" else 150
    cfgs = sample_configs(steps) + generated_configs(6 if tier == "quick" else 40, seed)
    seeds = [11] if tier == "quick" else [11, 4242, 99]
    from concurrent.futures import ThreadPoolExecutor
    jobs = []
    for name, cfg in cfgs:
        for sd in seeds:
            jobs.append((name, cfg, sd))
    pairs = []

    def do(job):
        name, cfg, sd = job
        base = run_worker(cfg, sd, "plain", 0)
        res = [("hashseed", run_worker(cfg, sd, "plain", 4242)), ("perturbed", run_worker(cfg, sd, "perturbed", 77)),
               ("twice", run_worker(cfg, sd, "twice", 0)), ("nologger", run_worker(cfg, sd, "nologger", 0))]
        return name, sd, base, res
    with ThreadPoolExecutor(max_workers=8) as ex:
        results = list(ex.map(do, jobs))
    lines, meta = [], []
    errors = []
    for name, sd, base, res in results:
        if "error" in base:
            # the configurations are valid (they run on the unchanged tree).  The run is repeated in two more fresh processes:
            # if it succeeds there, the outcome depends on the process; if the code under test raises every time, it is
            # reported as such (a verdict, not a failure of the machinery); anything else is a machinery problem
            cfg_ = dict(cfgs)[name]
            again = [run_worker(cfg_, sd, "plain", 0), run_worker(cfg_, sd, "plain", 4242)]
            good = [r for r in again if "error" not in r]
            in_pams = "/pams/" in base["error"] and "harness/" not in base["error"].split("/pams/")[-1]
            if good:
                lines.append({"a": good[0]["digests"], "b": [-1], "smut": False})
                meta.append({"config": name, "seed": sd, "against": "fresh-process-again-raised", "n": good[0]["n"], "error": base["error"][-300:]})
            elif in_pams:
                lines.append({"a": [-2], "b": [-1], "smut": False})
                meta.append({"config": name, "seed": sd, "against": "valid-configuration-raises-in-every-process", "n": 0, "error": base["error"][-300:]})
            else:
                errors.append((name, base["error"]))
            continue
        for mode, r in res:
            if "error" in r:
                # the configuration runs in a fresh process but not in this environment (after another run in the process,
                # with the same settings object a second time ...): the outcome depends on something it must not depend on
                lines.append({"a": base["digests"], "b": [-1], "smut": False})
                meta.append({"config": name, "seed": sd, "against": mode + "-raised", "n": base["n"], "error": r["error"][-300:]})
                continue
            if mode == "nologger":
                lines.append({"a": r["digests"], "b": r["digests2"], "smut": bool(r["smut"])})
                meta.append({"config": name, "seed": sd, "against": "same-run-without-a-logger", "n": len(r["digests"])})
                continue
            lines.append({"a": base["digests"], "b": r["digests"], "smut": bool(r["smut"] or base["smut"])})
            meta.append({"config": name, "seed": sd, "against": mode, "n": base["n"]})
            if mode == "twice":
                lines.append({"a": r["digests"], "b": r["digests2"], "smut": bool(r["smut"])})
                meta.append({"config": name, "seed": sd, "against": "second-run-same-settings-object", "n": base["n"]})
    if errors:
        # a configuration that cannot run at all says nothing about reproducibility: machinery problem unless the code broke
        raise MachineryError("C07 worker failed: %s" % errors[:2])
    path = os.path.join(WORK, "TraceDet-%d.ndjson" % os.getpid())
    with open(path, "w") as f:
        for d in lines:
            f.write(dumps(d) + "\n")
    try:
        res, r = tlc.validate_traces("TraceDet", "TraceDet.cfg", path, len(lines), workers=8, tag="TraceDet")
    finally:
        os.remove(path)
    cases = []
    for i, m in enumerate(meta):
        vd = res[i + 1][1].get(prop, "ok")
        cases.append({"verdict": vd, "sig": {"config": m["config"], "against": m["against"]},
                      "replay": {"group": "det", "config": m["config"], "seed": m["seed"], "against": m["against"], "steps": steps}})
    viol, known, out = judge.judge(prop, cases)
    for ln in out:
        print(ln)
    nev = sum(len(d["a"]) for d in lines)
    cov = {"evaluations": nev, "distinct_nontrivial": len({(m["config"], m["seed"], m["against"]) for m in meta}),
           "rule": "distinct (configuration, seed, environment pair) comparisons of complete observable records (every logger delivery, user-agent notification, price series, final holdings; floats by bit pattern)",
           "samples": [{"config": meta[0]["config"], "seed": meta[0]["seed"], "against": meta[0]["against"], "events": meta[0]["n"],
                        "first_digests": lines[0]["a"][:6]}],
           "configurations": len(cfgs), "pairs_compared": len(lines), "traces_validated_against_impl": len(lines),
           "states": r.distinct, "transitions": r.generated, "trace_validation_wall_s": round(r.wall, 1)}
    evidence.write(prop, tier, seed, "exploration", cov, ASSUMPTIONS, time.time() - t0, viol)
    print("%s tier=%s: configurations=%d, pairs=%d, events compared=%d, violations=%d, known=%d (%.0fs)" % (
        prop, tier, len(cfgs), len(lines), nev, viol, known, time.time() - t0))
    return 1 if viol else 0


ASSUMPTIONS = [
    "C07 is a 2-safety property: TLC is used as an event-by-event comparator of pairs of recorded executions (product specification TraceDet); the strength comes from the perturbations (hash seed, global generator state, a preceding different run, reuse of the settings object), not from state exploration - level claimed: exploration",
    "records are compared through 24-bit digests per event plus the sequence length (a collision would have to hit the first differing event)",
    "sample configurations are shortened (sessions and agent counts) to keep the quick tier fast",
]


def replay(prop, path):
    doc = json.load(open(path))
    print("re-run the tier to reproduce: %s" % json.dumps(doc["replay"]))
    return check(prop, "quick", 1, time.time())
