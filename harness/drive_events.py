"""Run-level scenarios with the BUILT-IN events (FundamentalPriceShock, OrderMistakeShock, PriceLimitRule,
TradingHaltRule) and index markets, in exact configurations: zero-volatility fundamentals, dyadic rates,
power-of-two share totals - so that every observable is an exact integer in the trace."""
import random
from fractions import Fraction

from . import drive_run
from .common import sub_seed

RATES = [0.25, -0.25, 0.5, -0.5, 0.125]
SHARE_SETS = {1: [[128]], 2: [[64, 192], [128, 128], [100, 28], [300, 212]],
              # (128 + 64 + 192 = 3 x 128: unequal shares whose mean is the first one)
              3: [[64, 64, 128], [100, 28, 128], [16, 48, 192], [128, 64, 192], [100, 150, 50]]}


def frac(x):
    f = Fraction(x)
    return [f.numerator, f.denominator]


def make(rng, kind):
    """kind in fshock | mistake | plimit | halt | index | mixed"""
    nm = rng.choice([1, 2, 2, 3])
    if kind in ("index", "haltm"):
        nm = rng.choice([2, 3])
    tick = 1.0
    p0s = [float(rng.choice([128, 256, 200, 160])) for _ in range(nm)]
    names = ["M%d" % i for i in range(nm)]
    shares = rng.choice(SHARE_SETS[nm])
    cfg = {"simulation": {"markets": list(names), "agents": ["N", "H"], "sessions": []}}
    for i, m in enumerate(names):
        cfg[m] = {"class": "ProbeMarket", "tickSize": tick, "marketPrice": p0s[i], "fundamentalPrice": p0s[i],
                  "fundamentalDrift": 0.0, "fundamentalVolatility": 0.0, "outstandingShares": shares[i]}
    allm = list(names)
    has_index = nm >= 2 and (kind == "index" or rng.random() < 0.3)
    if has_index:
        comps = list(names) if rng.random() < 0.6 else rng.sample(names, 2)
        idx_p0 = 192.0
        cfg["IDX"] = {"class": "ProbeIndexMarket", "tickSize": tick, "marketPrice": idx_p0, "markets": comps}
        if rng.random() < 0.4:
            # a declared fundamental of its own does not replace the share-weighted average of the components
            cfg["IDX"]["fundamentalPrice"] = float(rng.choice([96, 150, 233]))
        cfg["simulation"]["markets"].append("IDX")
        allm.append("IDX")
        p0s.append(idx_p0)
        if rng.random() < 0.3:
            # an index of an index: the inner index counts with its own TRADED price and its declared shares
            cfg["IDX"]["outstandingShares"] = rng.choice([64, 192])
            cfg["IDX2"] = {"class": "ProbeIndexMarket", "tickSize": tick, "marketPrice": 176.0, "markets": [rng.choice(names), "IDX"]}
            cfg["simulation"]["markets"].append("IDX2")
            allm.append("IDX2")
            p0s.append(176.0)
    if has_index and "IDX2" not in cfg and rng.random() < 0.3:
        # a built-in ArbitrageAgent (high-frequency) that may trade the index and only SOME of its components; it never acts
        # (threshold out of reach) - looking at an index does not change the index (equal shares: the agent insists on that)
        for n in cfg["IDX"]["markets"]:
            cfg[n]["outstandingShares"] = 100
        cfg["ARBX"] = {"class": "ProbeArbitrageAgent", "numAgents": 1, "markets": ["IDX", cfg["IDX"]["markets"][0]], "assetVolume": 10,
                       "cashAmount": 10000, "orderVolume": 1, "orderThresholdPrice": 1e9}
        cfg["simulation"]["agents"] = ["N", "H", "ARBX"]
    elif has_index and len(cfg["IDX"]["markets"]) >= 2 and rng.random() < 0.2:
        cfg[rng.choice(cfg["IDX"]["markets"])]["outstandingShares"] = 0      # a declared weight of zero is a weight
    wide = kind in ("plimit", "halt", "haltx", "haltm", "mixed")
    spread = rng.choice([40, 80, 120]) if wide else rng.choice([2, 4, 8])
    script = {"pEmpty": rng.choice([0.0, 0.2]), "pCancel": 0.1, "pMarket": rng.choice([0.0, 0.15]), "maxBatch": rng.choice([1, 2]),
              "maxVol": rng.choice([1, 3]), "spread": spread, "ttls": rng.choice([[0], [0, 2, 5]]), "pOff": rng.choice([0.0, 0.2]),
              "absBase": [int(p) for p in p0s] if wide else 0, "pProbe": 0.0}
    cfg["N"] = {"class": "ScriptAgent", "numAgents": rng.randint(2, 5), "markets": list(allm), "assetVolume": 50, "cashAmount": 100000, "script": script}
    cfg["H"] = {"class": "ScriptHFT", "numAgents": rng.randint(1, 2), "markets": list(allm), "assetVolume": 50, "cashAmount": 100000, "script": script}
    ns = rng.randint(1, 3)
    sessions = []
    for s in range(ns):
        sessions.append({"sessionName": "S%d" % s, "iterationSteps": rng.randint(3, 8), "withOrderPlacement": rng.random() < 0.9,
                         "withOrderExecution": rng.random() < 0.75, "withPrint": False, "maxNormalOrders": rng.choice([1, 2, 3, 5]),
                         "maxHighFrequencyOrders": rng.choice([0, 1, 2]), "highFrequencySubmitRate": rng.choice([0.0, 0.5, 1.0])})
    cfg["simulation"]["sessions"] = sessions
    if kind == "haltx":
        # short alternating sessions: a halt started in an execution session is still pending when the next one begins
        ns = rng.randint(2, 4)
        first_exec = rng.random() < 0.7
        sessions = []
        for s in range(ns):
            sessions.append({"sessionName": "S%d" % s, "iterationSteps": rng.randint(2, 5), "withOrderPlacement": True,
                             "withOrderExecution": (s % 2 == 0) == first_exec, "withPrint": False, "maxNormalOrders": rng.choice([2, 3, 5]),
                             "maxHighFrequencyOrders": rng.choice([0, 1]), "highFrequencySubmitRate": rng.choice([0.0, 1.0])})
        cfg["simulation"]["sessions"] = sessions
    if kind == "haltm":
        # ONE rule over ALL markets, short execution sessions in a row, long halts: a halt is cut short by the end of its
        # session, another market halts in the next session while the record of the first is still pending
        ns = rng.randint(2, 3)
        hl = rng.choice([2, 3, 4])
        sessions = []
        for s in range(ns):
            sessions.append({"sessionName": "S%d" % s, "iterationSteps": rng.randint(2, 4) if s == 0 else hl + rng.randint(3, 8),
                             "withOrderPlacement": True, "withOrderExecution": True, "withPrint": False, "maxNormalOrders": rng.choice([3, 5]),
                             "maxHighFrequencyOrders": rng.choice([0, 1]), "highFrequencySubmitRate": rng.choice([0.0, 1.0])})
        cfg["simulation"]["sessions"] = sessions
        cfg["E0"] = {"class": "TradingHaltRule", "targetMarkets": list(names), "triggerChangeRate": rng.choice([0.0625, 0.03125]),
                     "haltingTimeLength": hl}
        sessions[0]["events"] = ["E0"] + (["PE"] if "PE" in cfg else [])
        return cfg
    if rng.random() < 0.4:
        # a user-written event hooked after every fill (and before every market step), declared in the first session: it is told
        # about every fill whatever the built-in events do in between
        cfg["PE"] = {"class": "ProbeEvent", "hooks": [["execution", False, None, ""], ["market", True, None, ""]]}
        sessions[0].setdefault("events", []).append("PE")
    if has_index and rng.random() < 0.4:
        s0 = rng.choice(sessions)
        cfg["DUP"] = {"class": "ProbeEvent", "hooks": [], "dupRegister": ["IDX", rng.choice(cfg["IDX"]["markets"]), rng.randint(0, 2)]}
        s0.setdefault("events", []).append("DUP")
    kinds = {"fshock": ["fshock"], "mistake": ["mistake"], "plimit": ["plimit"], "halt": ["halt"], "haltx": ["halt"], "index": ["fshock"],
             "mixed": rng.sample(["fshock", "mistake", "plimit", "halt"], rng.randint(2, 3))}[kind]
    n_ev = 0
    shock_budget = {m: 4 for m in names}
    used_mistake = set()
    for kd in kinds:
        for _ in range(rng.randint(1, 2)):
            sess = rng.choice(sessions)
            steps = sess["iterationSteps"]
            name = "E%d" % n_ev
            enabled = rng.random() < 0.85
            if kd == "fshock":
                tgt = rng.choice(names)
                ln = rng.randint(1, 2)
                if rng.random() < 0.1:
                    ln = 0                    # an empty window: the shock never fires
                if shock_budget[tgt] < ln:
                    continue
                shock_budget[tgt] -= ln
                cfg[name] = {"class": "FundamentalPriceShock", "target": tgt, "triggerTime": rng.randint(0, steps),
                             "priceChangeRate": rng.choice(RATES), "shockTimeLength": ln, "enabled": enabled}
            elif kd == "mistake":
                tgt = rng.choice(allm)
                trig = rng.randint(0, steps - 1)
                cfg[name] = {"class": "OrderMistakeShock", "target": tgt, "triggerTime": trig,
                             "priceChangeRate": rng.choice([0.5, -0.5, 1.0, -0.25, 0.25, 0.0]), "orderVolume": rng.choice([1, 7, 30]),
                             "orderTimeLength": rng.choice([1, 3, 10]), "enabled": enabled}
            elif kd == "plimit":
                tg = rng.sample(names, rng.randint(1, len(names)))
                if rng.random() < 0.12:
                    tg = []                 # a rule without targets limits nothing
                cfg[name] = {"class": "PriceLimitRule", "targetMarkets": tg, "triggerChangeRate": rng.choice([0.125, 0.25, 0.0625]),
                             "enabled": enabled}
                if rng.random() < 0.2 and len(allm) >= 2:
                    cfg[name]["referenceMarket"] = rng.choice(allm)      # obsolete key, ignored with a warning: every target has its own band
            elif kd == "halt":
                tg = rng.sample(names, rng.randint(1, len(names)))
                cfg[name] = {"class": "TradingHaltRule", "targetMarkets": tg,
                             "triggerChangeRate": rng.choice([0.125, 0.0625, 0.25, 0.125, 0.0625, 0.25, -0.125]),    # (a negative rate counts by its size)
                             "haltingTimeLength": rng.choice([1, 2, 3] if kind != "haltx" else [3, 4, 6]), "enabled": enabled or kind == "haltx"}
            if kd == "plimit" and name in cfg and rng.random() < 0.35:
                # another event with a hook LISTED FOR A TIME on the same kind of occurrence (an order mistake shock, on a market
                # the rule does not target when there is one), registered BEFORE the rule: the rule still sees every order
                others = [x for x in allm if x not in cfg[name]["targetMarkets"]] or list(allm)
                mname = "X%d" % n_ev
                cfg[mname] = {"class": "OrderMistakeShock", "target": rng.choice(others), "triggerTime": rng.randint(0, steps - 1),
                              "priceChangeRate": rng.choice([0.5, -0.5]), "orderVolume": 3, "orderTimeLength": 2, "enabled": True}
                sess.setdefault("events", []).append(mname)
            if name in cfg and kd in ("fshock", "mistake") and rng.random() < 0.3:
                # the event is declared through a template it extends: its own keys win, falsy ones ("enabled": false,
                # "triggerTime": 0) included
                full = cfg[name]
                tmpl = dict(full, enabled=True, triggerTime=max(1, steps - 1))
                cfg["T" + name] = tmpl
                cfg[name] = {"extends": "T" + name, "enabled": full["enabled"], "triggerTime": full["triggerTime"]}
            if name not in cfg:
                continue
            # (choices below come from a generator of their own, so that the scenarios drawn from rng stay what they were)
            r2 = random.Random(name + repr(sorted((k, repr(x)) for k, x in cfg[name].items())))
            if kd == "plimit" and "IDX" in cfg and r2.random() < 0.5:
                # the rule names the INDEX market (and at most some of its components): the other components are not targets
                comps = cfg["IDX"]["markets"]
                cfg[name]["targetMarkets"] = ["IDX"] + [x for x in cfg[name]["targetMarkets"] if x != comps[0]][:r2.choice([0, 1])]
            if kd in ("plimit", "halt") and "extends" not in cfg[name] and r2.random() < 0.35:
                # a rule declared through a template: the entry's own keys win - also the falsy ones (no targets, a rate of
                # zero = a band of one price, "enabled": false)
                full = cfg[name]
                tmpl = dict(full, enabled=True, targetMarkets=list(names))
                child = {"extends": "T" + name, "enabled": full["enabled"], "targetMarkets": full["targetMarkets"]}
                if kd == "plimit":
                    tmpl["triggerChangeRate"] = 0.5
                    child["triggerChangeRate"] = 0.0 if r2.random() < 0.3 else full["triggerChangeRate"]
                cfg["T" + name] = tmpl
                cfg[name] = child
            elif cfg[name].get("enabled") is True and "extends" not in cfg[name] and r2.random() < 0.4:
                del cfg[name]["enabled"]          # the key is optional: an event is enabled unless it says otherwise
            sess.setdefault("events", []).append(name)
            n_ev += 1
    return cfg


def resolved(cfg, name):
    """an event entry with its template (one `extends` level, own keys first) - computed here, not by the code under test"""
    e = dict(cfg[name])
    while "extends" in e:
        parent = dict(cfg[e.pop("extends")])
        e = dict(parent, **e)
    return e


def header_from_cfg(cfg):
    """Expected event parameters derived from the CONFIGURATION (independent of the code under test)."""
    mnames = cfg["simulation"]["markets"]
    mid = {n: i for i, n in enumerate(mnames)}
    starts, t = [], 0
    for s in cfg["simulation"]["sessions"]:
        starts.append(t)
        t += s["iterationSteps"]
    fs, ms, pl, hl = [], [], [], []
    for si, s in enumerate(cfg["simulation"]["sessions"]):
        for en in s.get("events", []):
            e = resolved(cfg, en)
            if not e.get("enabled", True):
                continue
            c = e.get("class")
            if c == "FundamentalPriceShock":
                fs.append([mid[e["target"]], starts[si] + e["triggerTime"], e.get("shockTimeLength", 1)] + frac(e["priceChangeRate"]))
            elif c == "OrderMistakeShock":
                ms.append([mid[e["target"]], starts[si] + e["triggerTime"]] + frac(e["priceChangeRate"]) + [e["orderVolume"], e["orderTimeLength"]])
            elif c == "PriceLimitRule":
                pl.append([[mid[x] for x in e["targetMarkets"]]] + frac(e["triggerChangeRate"]))
            elif c == "TradingHaltRule":
                hl.append([[mid[x] for x in e["targetMarkets"]]] + frac(e["triggerChangeRate"]) + [e["haltingTimeLength"]])
    w, comps, p0s = [], [], []
    for n in mnames:
        m = cfg[n]
        w.append(int(m.get("outstandingShares", 0)))
        comps.append([mid[x] for x in m.get("markets", [])])
        p0s.append(int(float(m["marketPrice"]) * 1024 / float(m["tickSize"])))
    return {"fs": fs, "ms": ms, "pl": pl, "hl": hl, "w": w, "comps": comps, "p0s": p0s, "neg": ""}


def lengthen(cfg, rng):
    """stretch one session so that the run crosses a 100-step generation / storage chunk after the events fired"""
    sess = cfg["simulation"]["sessions"]
    sess[-1]["iterationSteps"] = rng.choice([105, 130])
    sess[-1]["maxNormalOrders"] = 1
    sess[-1]["maxHighFrequencyOrders"] = 0
    cfg["N"]["numAgents"] = 2
    cfg["N"]["script"] = dict(cfg["N"]["script"], pEmpty=0.7, maxBatch=1)
    return cfg


def negative_index_runs(seed):
    """configurations the loader must refuse: an index naming the same component twice, an index over a market
    without outstandingShares"""
    rng = random.Random(sub_seed(seed, "index-negative"))
    runs = []
    for neg in ("duplicate-component", "component-without-shares", "duplicate-component", "component-without-shares"):
        cfg = make(rng, "index")
        names = [n for n in cfg["simulation"]["markets"] if n != "IDX"]
        if "IDX" not in cfg:
            cfg["IDX"] = {"class": "ProbeIndexMarket", "tickSize": 1.0, "marketPrice": 192.0, "markets": list(names)}
            cfg["simulation"]["markets"].append("IDX")
            for g in ("N", "H"):
                cfg[g]["markets"] = list(cfg[g]["markets"]) + ["IDX"]
        if neg == "duplicate-component":
            comps = list(names)
            comps.insert(rng.randrange(len(comps) + 1), rng.choice(names))
            cfg["IDX"]["markets"] = comps
        else:
            victim = rng.choice(cfg["IDX"]["markets"])
            del cfg[victim]["outstandingShares"]
        r = drive_run.execute(cfg, rng.randrange(2 ** 31))
        r["src"] = "events:index-negative"
        r["evhdr"] = header_from_cfg(cfg)
        r["evhdr"]["neg"] = neg
        runs.append(r)
    return runs


def generate(n, seed, kinds=("fshock", "mistake", "plimit", "halt", "index", "mixed"), long_every=25):
    rng = random.Random(sub_seed(seed, "event-configs"))
    runs = []
    for i in range(n):
        kind = kinds[i % len(kinds)]
        cfg = make(rng, "mistake" if kind == "mistakez" else kind)
        if kind in ("fshock", "index") and i % long_every == 0:
            cfg = lengthen(cfg, rng)
        if kind == "mistakez":
            # prices next to zero: trades at price 0 (and below) leave a market price that is not positive when the shock fires -
            # the side of the mistake order still follows the sign of the configured rate
            for name in cfg["simulation"]["markets"]:
                cfg[name]["marketPrice"] = 2.0 * cfg[name]["tickSize"]
                if "fundamentalPrice" in cfg[name] and not name.startswith("IDX"):
                    cfg[name]["fundamentalPrice"] = cfg[name]["marketPrice"]
            for g in ("N", "H"):
                cfg[g]["script"] = dict(cfg[g]["script"], penny=True, spread=3, pMarket=0.3, pEmpty=0.1, absBase=0)
            for s_ in cfg["simulation"]["sessions"]:
                s_.update(withOrderPlacement=True, withOrderExecution=True)
        r = drive_run.execute(cfg, rng.randrange(2 ** 31))
        r["src"] = "events:" + kind
        r["evhdr"] = header_from_cfg(cfg)
        runs.append(r)
    return runs
