"""Run-level probes: subclasses plugged into PAMS through its public extension points only
(logger=, class_register + config "class", simulator_class=, prng=).  Nothing in /repo is modified.

Every probe appends events to the current Recorder (REC): one event per spec action, emitted after the
state change, in program order (the simulator is single-threaded).
"""
import math
import random

from .book_session import PLURAL_ACCESSORS, SINGLE_ACCESSORS, current_row, history_rows, snap_market, times_argument
from .common import BADPX, NOPX, MachineryError, Units, import_pams

import_pams()
from pams.agents.arbitrage_agent import ArbitrageAgent  # noqa: E402
from pams.agents.base import Agent  # noqa: E402
from pams.agents.high_frequency_agent import HighFrequencyAgent  # noqa: E402
from pams.events.base import EventABC, EventHook  # noqa: E402
from pams.index_market import IndexMarket  # noqa: E402
from pams.logs.base import (CancelLog, ExecutionLog, ExpirationLog, Logger, MarketStepBeginLog,  # noqa: E402
                            MarketStepEndLog, OrderLog, SessionBeginLog, SessionEndLog, SimulationBeginLog,
                            SimulationEndLog)
from pams.market import Market  # noqa: E402
from pams.order import LIMIT_ORDER, MARKET_ORDER, Cancel, Order  # noqa: E402
from pams.simulator import Simulator  # noqa: E402

DEN = 2                 # units per tick in recorded runs
FDEN = 1024             # fundamentals / index values are logged in 1/FDEN of a tick (exact runs)
CASH_UNIT = 2.0 ** -7   # cash is logged in multiples of this (exact runs)


class Recorder:
    def __init__(self, exact=True):
        self.ev = []
        self.exact = exact
        self.units = {}        # market_id -> Units
        self.book_ev = {}      # market_id -> TraceBook event list
        self.book_hdr = {}     # market_id -> TraceBook header fields
        self.objs = {}         # id(order) -> small int (with a reference kept so ids stay unique)
        self._keep = []
        self.intern = {}
        self.sim = None
        self.scripts = {}      # agent name -> forced program (replay_run)
        self.cash_soft_err = 0.0
        self.exec_truth = None       # per session index: withOrderExecution AS CONFIGURED, when nothing configured can stop a market
        self.cash_unit = CASH_UNIT   # finer for runs on grids below 2^-7 (drive_run.micro_runs)
        self._lg = {}
        self.pending_quiet = {}   # market_id -> (exec switch, running) when an order / cancel was accepted there

    def emit(self, _kind, **kw):
        kw["k"] = _kind
        self.ev.append(kw)
        return kw

    def obj(self, o):
        i = self.objs.get(id(o))
        if i is None:
            i = len(self.objs)
            self.objs[id(o)] = i
            self._keep.append(o)
        return i

    def note_accept(self, market):
        sess = self.sim.current_session
        self.pending_quiet[market.market_id] = (bool(sess.with_order_execution) if sess is not None else False,
                                                bool(market.is_running))

    def flush_quiet(self):
        """Called when the runner moves on (next consultation / acceptance / end of step): by now a matching
        round must have followed every acceptance made while execution was on (C09, evaluated by TraceBook)."""
        for mid, (ex, run) in self.pending_quiet.items():
            if mid in self.book_ev:
                self.book_ev[mid].append({"k": "quiet", "exec": ex, "runacc": run})
        self.pending_quiet = {}

    # ---- projections
    def U(self, market_id):
        return self.units[market_id]

    def cash_units(self, x):
        if self.exact:
            k = round(x / self.cash_unit)
            if k * self.cash_unit != x or abs(k) >= 2 ** 31 - 2:
                # a cash amount off the exact grid cannot come from folding exact fills: the trace specification sees a value
                # no fold produces (and says so), the harness does not fail
                self.cash_soft_err += 1
                return -(2 ** 31) + 1
            return int(k)
        return 0

    def fine(self, market_id, x):
        """value in 1/FDEN of the market's tick, -1 if not exactly representable (exact runs only)"""
        if not self.exact or x is None:
            return -1
        t = self.units[market_id].tick / FDEN
        k = round(x / t)
        if k * t != x or abs(k) >= 2 ** 30:
            return -1
        return int(k)

    def market_view(self):
        sim = self.sim
        d = {"funds": [self.fine(m.market_id, m.get_fundamental_price()) for m in sim.markets],
             "mkts": [self.fine(m.market_id, m.get_market_price()) for m in sim.markets],
             "runs": [bool(m.is_running) for m in sim.markets]}
        idxv, iok = [], []
        for m in sim.markets:
            if isinstance(m, IndexMarket):
                v = m.get_index()
                comps = m.get_components()
                num = sum(c.get_market_price() * c.outstanding_shares for c in comps)
                den = sum(c.outstanding_shares for c in comps)
                ok = abs(v - num / den) <= 1e-12 * max(1.0, abs(v)) and m.get_market_index() == v
                fv = m.get_fundamental_price()
                fnum = sum(c.get_fundamental_price() * c.outstanding_shares for c in comps)
                idxv.append(self.fine(m.market_id, v))
                iok.append(bool(ok))
            else:
                idxv.append(-1)
                iok.append(True)
        d["idxv"] = idxv
        d["iok"] = iok
        # the index "at any time": explicit queries for past times (0, the middle, now) against the components at that time
        idxh = []
        for m in sim.markets:
            if isinstance(m, IndexMarket):
                now = m.get_time()
                comps = m.get_components()
                for t in sorted({0, now // 2, now}):
                    if t < 0:
                        continue
                    vals = [m.get_index(t), m.get_market_index(t), m.compute_market_index(t)]
                    num = sum(c.get_market_price(t) * c.outstanding_shares for c in comps)
                    den = sum(c.outstanding_shares for c in comps)
                    ok = all(abs(v - num / den) <= 1e-12 * max(1.0, abs(v)) for v in vals)
                    fnum = sum(c.get_fundamental_price(t) * c.outstanding_shares for c in comps)
                    fv = m.compute_fundamental_index(t)
                    ok = ok and abs(fv - fnum / den) <= 1e-12 * max(1.0, abs(fv))
                    idxh.append([int(m.market_id), int(t), self.fine(m.market_id, vals[0]), bool(ok),
                                 [self.fine(c.market_id, c.get_market_price(t)) for c in sim.markets]])
        d["idxh"] = idxh
        return d

    def holdings(self):
        out = []
        for a in self.sim.agents:
            row = [self.cash_units(a.cash_amount)]
            for m in self.sim.markets:
                row.append(int(a.asset_volumes.get(m.market_id, 0)))
            out.append(row)
        return out

    def cash_floats(self):
        return [float(a.cash_amount) for a in self.sim.agents]


REC = None


def set_recorder(r):
    global REC
    REC = r
    return r


# ------------------------------------------------------------------------------------------------ logger
def log_key(log, rec):
    if isinstance(log, OrderLog):
        return "order", ["o", log.market_id, log.order_id]
    if isinstance(log, CancelLog):
        return "cancel", ["c", log.market_id, log.order_id, log.cancel_time]
    if isinstance(log, ExecutionLog):
        px = rec.U(log.market_id).u(log.price, soft=True)
        return "exec", ["e", log.market_id, log.time, log.buy_order_id, log.sell_order_id, log.volume, BADPX if px is None else px]
    if isinstance(log, ExpirationLog):
        return "expire", ["x", log.market_id, log.order_id]
    if isinstance(log, MarketStepBeginLog):
        return "stepB", ["sb", log.session.session_id, log.market.market_id, log.market.get_time()]
    if isinstance(log, MarketStepEndLog):
        return "stepE", ["se", log.session.session_id, log.market.market_id, log.market.get_time()]
    if isinstance(log, SessionBeginLog):
        return "sessB", ["SB", log.session.session_id]
    if isinstance(log, SessionEndLog):
        return "sessE", ["SE", log.session.session_id]
    if isinstance(log, SimulationBeginLog):
        return "simB", ["simB"]
    if isinstance(log, SimulationEndLog):
        return "simE", ["simE"]
    return "other", ["?"]


class RecLogger(Logger):
    """Records every way a record can reach the logger and every delivery (process_*)."""

    def __len__(self):
        """a logger that counts as empty (a user's logger may define a length): it is still the logger"""
        return 0

    def write(self, log):
        kind, key = log_key(log, REC)
        REC.emit("lw", via="write", kind=kind, ref=key)
        if kind in ("order", "cancel", "exec", "expire"):
            REC._lg_count(log.market_id, kind)
        super().write(log)

    def bulk_write(self, logs):
        for log in logs:
            kind, key = log_key(log, REC)
            REC.emit("lw", via="bulk", kind=kind, ref=key)
            if kind in ("order", "cancel", "exec", "expire"):
                REC._lg_count(log.market_id, kind)
        super().bulk_write(logs)

    def write_and_direct_process(self, log):
        kind, key = log_key(log, REC)
        REC.emit("lw", via="direct", kind=kind, ref=key)
        super().write_and_direct_process(log)

    def _process(self):
        REC.emit("flush", n=len(self.pending_logs))
        super()._process()

    # deliveries
    def process_order_log(self, log):
        u = REC.U(log.market_id).u
        REC.emit("lp", kind="order", ref=["o", log.market_id, log.order_id],
                 f=[int(log.time), int(log.agent_id), bool(log.is_buy), log.kind == MARKET_ORDER, _soft(u, log.price),
                    int(log.volume), int(log.ttl or 0)])

    def process_cancel_log(self, log):
        u = REC.U(log.market_id).u
        REC.emit("lp", kind="cancel", ref=["c", log.market_id, log.order_id, log.cancel_time],
                 f=[int(log.cancel_time), int(log.agent_id), bool(log.is_buy), log.kind == MARKET_ORDER, _soft(u, log.price),
                    int(log.volume), int(log.ttl or 0), int(log.order_time)])

    def process_expiration_log(self, log):
        u = REC.U(log.market_id).u
        REC.emit("lp", kind="expire", ref=["x", log.market_id, log.order_id],
                 f=[int(log.time), int(log.agent_id), bool(log.is_buy), log.kind == MARKET_ORDER, _soft(u, log.price),
                    int(log.volume), int(log.ttl or 0), int(log.order_time)])

    def process_execution_log(self, log):
        u = REC.U(log.market_id).u
        REC.emit("lp", kind="exec", ref=["e", log.market_id, log.time, log.buy_order_id, log.sell_order_id, log.volume, _soft(u, log.price)],
                 f=[int(log.time), int(log.buy_agent_id), int(log.sell_agent_id), int(log.buy_order_id), int(log.sell_order_id),
                    _soft(u, log.price), int(log.volume)])

    def process_market_step_begin_log(self, log):
        m, s = log.market, log.session
        REC.emit("stepB", s=s.session_id, m=m.market_id, t=m.get_time(), exec=bool(s.with_order_execution),
                 place=bool(s.with_order_placement), run=bool(m.is_running),
                 clocks=[x.get_time() for x in REC.sim.markets], **REC.market_view())

    def process_market_step_end_log(self, log):
        REC.flush_quiet()
        m, s = log.market, log.session
        REC.emit("stepE", s=s.session_id, m=m.market_id, t=m.get_time(), exec=bool(s.with_order_execution),
                 run=bool(m.is_running), clocks=[x.get_time() for x in REC.sim.markets], hold=REC.holdings(),
                 **REC.market_view())

    def process_session_begin_log(self, log):
        s = log.session
        REC.emit("sessB", s=s.session_id, start=int(s.session_start_time), steps=int(s.iteration_steps),
                 clocks=[x.get_time() for x in REC.sim.markets])

    def process_session_end_log(self, log):
        REC.emit("sessE", s=log.session.session_id, clocks=[x.get_time() for x in REC.sim.markets])

    def process_simulation_begin_log(self, log):
        REC.emit("simB")

    def process_simulation_end_log(self, log):
        REC.emit("simE", hold=REC.holdings())


def _soft(u, x):
    k = u(x, soft=True)
    return BADPX if k is None else k


def _lg_count(self, market_id, kind):
    c = self._lg.setdefault(market_id, [0, 0, 0, 0])
    c[("order", "cancel", "exec", "expire").index(kind)] += 1


def _lg_take(self, market_id):
    c = self._lg.get(market_id, [0, 0, 0, 0])
    self._lg[market_id] = [0, 0, 0, 0]
    return c


Recorder._lg_count = _lg_count
Recorder._lg_take = _lg_take


# ------------------------------------------------------------------------------------------------ markets
class ProbeMarketMixin:
    """Observes _add_order / _cancel_order / _execution / _update_time by overriding and calling super()."""

    def setup(self, settings, *args, **kwargs):
        super().setup(settings, *args, **kwargs)
        tick = self.tick_size
        exact = REC.exact
        REC.units[self.market_id] = Units(tick, DEN, exact)
        REC.book_ev[self.market_id] = []
        self._seen_running = True      # TraceBook's Init has the market running after its first clock step
        self._intern = {}

    def _u(self):
        return REC.U(self.market_id)

    def _bev(self, e):
        """market-level (TraceBook) event with the same snapshot BookSession records"""
        self._sync_running()
        e["lg"] = REC._lg_take(self.market_id)
        e.update(snap_market(self, self._u()))
        REC.book_ev[self.market_id].append(e)
        return e

    def _running_now(self):
        """whether this market runs: the execution flag of the current session AS CONFIGURED when no configured event can stop
        a market (then it is a function of the configuration, not of the code under test); the market's own flag otherwise"""
        tr = REC.exec_truth
        sess = getattr(REC.sim, "current_session", None)
        if tr is not None and sess is not None:
            for i, x in enumerate(REC.sim.sessions):
                if x is sess and i < len(tr):
                    return bool(tr[i])
        return bool(self.is_running)

    def _sync_running(self):
        now = self._running_now()
        if now != self._seen_running and self.time >= 0 and self.market_id in REC.book_hdr:
            self._seen_running = now
            e = {"k": "run", "on": self._seen_running, "lg": [0, 0, 0, 0]}
            e.update(snap_market(self, self._u()))
            REC.book_ev[self.market_id].append(e)

    def _add_order(self, order):
        REC.flush_quiet()
        req = order.price
        side0, kind0, vol0, ttl0 = order.is_buy, order.kind, order.volume, order.ttl
        obj = REC.obj(order)
        if self.time >= 0:
            self._sync_running()
        mp_before = self.get_market_price() if self.time >= 0 else None
        p0_before = self.get_market_price(0) if self.time >= 0 else None
        try:
            log = super()._add_order(order)
        except Exception as ex:  # noqa: BLE001
            REC.emit("accx", m=self.market_id, a=int(order.agent_id), obj=obj, exc=type(ex).__name__)
            if self.time >= 0 and self.market_id in REC.book_hdr:
                neg = "foreign" if order.market_id != self.market_id else ("resubmit" if getattr(order, "_verif_seen", False) else "")
                self._bev({"k": "sub", "obj": obj, "ag": int(order.agent_id), "buy": bool(side0), "mo": kind0 == MARKET_ORDER,
                           "req": 0, "vol": int(vol0), "ttl": int(ttl0 or 0), "neg": neg, "out": type(ex).__name__,
                           "id": -1, "px": 0, "t0": -1, "c19": ""})
            raise
        try:
            order._verif_seen = True       # this object has been accepted once (resubmission is a negative scenario)
        except Exception:  # noqa: BLE001
            pass
        u = self._u()
        mo = order.kind == MARKET_ORDER
        px = NOPX if mo else _soft(u.u, order.price)
        rq = 0 if (mo or req is None) else _soft(u.u, req)
        REC.emit("acc", m=self.market_id, id=int(order.order_id), a=int(order.agent_id), obj=obj, buy=bool(order.is_buy),
                 mo=mo, px=px, vol=int(order.volume), ttl=int(order.ttl or 0), t=int(order.placed_at), req=rq,
                 tm=int(self.time), run=bool(self.is_running),
                 mp=REC.fine(self.market_id, mp_before), p0=REC.fine(self.market_id, p0_before),
                 rqf=-1 if (mo or req is None) else REC.fine(self.market_id, req),
                 lf=[int(log.time), int(log.agent_id), bool(log.is_buy), log.kind == MARKET_ORDER, _soft(u.u, log.price),
                     int(log.volume), int(log.ttl or 0)])
        self._bev({"k": "sub", "obj": obj, "ag": int(order.agent_id), "buy": bool(order.is_buy), "mo": mo,
                   "req": px if (not u.exact or rq < 0) else rq, "vol": int(order.volume), "ttl": int(order.ttl or 0), "neg": "",
                   "out": "ok", "id": int(order.order_id), "px": max(px, 0), "t0": int(order.placed_at),
                   "c19": "" if px >= 0 else "off-grid"})
        REC.note_accept(self)
        return log

    def _cancel_order(self, cancel):
        REC.flush_quiet()
        if self.time >= 0:
            self._sync_running()
        try:
            log = super()._cancel_order(cancel)
        except Exception as ex:  # noqa: BLE001
            REC.emit("cancx", m=self.market_id, a=int(cancel.order.agent_id), exc=type(ex).__name__)
            raise
        o = cancel.order
        REC.emit("canc", m=self.market_id, id=int(o.order_id), a=int(o.agent_id), vol=int(log.volume), t=int(cancel.placed_at),
                 tm=int(self.time), cx=bool(o.is_canceled), ovol=int(o.volume))
        self._bev({"k": "can", "id": int(o.order_id), "out": "ok", "vol": int(log.volume)})
        REC.note_accept(self)
        return log

    def _execution(self):
        self._sync_running()
        u = self._u()
        try:
            logs = super()._execution()
        except Exception as ex:  # noqa: BLE001
            REC.emit("round", m=self.market_id, t=int(self.time), raised=type(ex).__name__, fills=[], run=bool(self.is_running))
            self._bev({"k": "match", "raised": type(ex).__name__, "fills": []})
            raise
        fills = [[int(g.buy_order_id), int(g.sell_order_id), _soft(u.u, g.price), int(g.volume),
                  int(g.buy_agent_id), int(g.sell_agent_id), int(g.time), int(g.market_id)] for g in logs]
        REC.emit("round", m=self.market_id, t=int(self.time), raised="", fills=fills, run=bool(self.is_running),
                 p0=REC.fine(self.market_id, self.get_market_price(0)))
        self._bev({"k": "match", "raised": "", "fills": [f[:4] for f in fills]})
        return logs

    def _update_time(self, next_fundamental_price):
        first = self.time < 0
        before = {o.order_id: o.volume for o in self.buy_order_book.priority_queue + self.sell_order_book.priority_queue}
        if not first:
            self._sync_running()
        try:
            pre = current_row(self, self._intern)
        except Exception:  # noqa: BLE001 - a getter raised: the snapshot after the step reports it
            pre = 0
        dok = True
        if isinstance(self, IndexMarket) and not first:
            # the components have already moved to the next step, the index has not: asked without a time, the index answers for
            # ITS OWN clock (the same values as when asked for that time explicitly)
            try:
                dok = bool(self.get_market_index() == self.get_market_index(self.get_time())
                           and self.compute_fundamental_index() == self.compute_fundamental_index(self.get_time()))
            except Exception:  # noqa: BLE001
                dok = False
        super()._update_time(next_fundamental_price)
        after = {o.order_id for o in self.buy_order_book.priority_queue + self.sell_order_book.priority_queue}
        gone = sorted([i, v] for i, v in before.items() if i not in after)
        u = self._u()
        fu = _soft(u.u, next_fundamental_price) if REC.exact else 0
        REC.emit("tick", m=self.market_id, t=int(self.time), exp=gone, fund=max(fu, 0), idx=isinstance(self, IndexMarket), dok=dok)
        if first:
            p0 = _soft(u.u, self.get_market_price())
            REC.book_hdr[self.market_id] = {"den": DEN, "p0": max(p0, 0), "fund0": max(fu, 0), "exact": bool(u.exact),
                                            "tick": self.tick_size}
            REC._lg_take(self.market_id)
        else:
            e = {"k": "tick", "fund": max(fu, 0), "exp": gone, "pre": pre, "nh": False}
            e = self._bev(e)
            e["hist"] = history_rows(self, self._intern)


class ProbeMarket(ProbeMarketMixin, Market):
    pass


class ProbeIndexMarket(ProbeMarketMixin, IndexMarket):
    pass


# ------------------------------------------------------------------------------------------------ simulator
class ProbeSimulator(Simulator):
    def __init__(self, *a, **k):
        super().__init__(*a, **k)
        REC.sim = self

    def _update_times_on_markets(self, markets):
        REC.emit("tickAllB", clocks=[m.get_time() for m in self.markets])
        super()._update_times_on_markets(markets)
        ev = {"clocks": [m.get_time() for m in self.markets]}
        ev.update(REC.market_view())
        fok = []
        for m in self.markets:
            if isinstance(m, IndexMarket):
                comps = m.get_components()
                fnum = sum(c.get_fundamental_price() * c.outstanding_shares for c in comps)
                den = sum(c.outstanding_shares for c in comps)
                fv = m.get_fundamental_price()
                fok.append(bool(abs(fv - fnum / den) <= 1e-12 * max(1.0, abs(fv))))
            else:
                fok.append(True)
        ev["fok"] = fok
        REC.emit("tickAll", **ev)

    def _update_agents_for_execution(self, execution_logs):
        super()._update_agents_for_execution(execution_logs)
        REC.emit("applied", n=len(execution_logs), hold=REC.holdings())


# ------------------------------------------------------------------------------------------------ agents
INDEX_TIME_ACCESSORS = ["get_index", "get_market_index", "get_fundamental_index", "compute_market_index", "compute_fundamental_index"]


class ScriptMixin:
    """User-written agent: consults a program (random, from its own seeded generator, or forced by a replay),
    keeps references to its own orders, reports every callback with a snapshot of all holdings."""

    def setup(self, settings, accessible_markets_ids, *args, **kwargs):
        super().setup(settings, accessible_markets_ids, *args, **kwargs)
        self.mine = []
        self.p = {"pEmpty": 0.3, "pCancel": 0.2, "pMarket": 0.1, "maxBatch": 3, "maxVol": 5, "spread": 4,
                  "ttls": [0, 1, 2, 5], "pOff": 0.25, "pCross": 0.5}
        self.p.update(settings.get("script", {}))
        self.forced = REC.scripts.get(self.name)
        self.n_consult = 0

    def __len__(self):
        # a user-written agent may be a container (of its live orders, say): every other scripted agent is EMPTY, hence falsy -
        # it is still the owner of its orders and has to be told about them
        return int(self.agent_id % 2)

    def submit_orders(self, markets):
        hft = isinstance(self, HighFrequencyAgent)
        t = markets[0].get_time()
        REC.flush_quiet()
        REC.emit("consult", a=self.agent_id, hft=hft, t=int(t))
        self.n_consult += 1
        if self.p.get("pProbe", 0.15) > 0 and self.forced is None and self.prng.random() < self.p.get("pProbe", 0.15):
            self._probe_future(markets)
        if self.forced is not None:
            batch = self.forced(self, markets)
        else:
            batch = self._random_batch(markets)
            if self.p.get("pSpoof", 0.0) > 0 and self.prng.random() < self.p["pSpoof"]:
                batch = self._spoof(batch, markets)
        summ = []
        for x in batch:
            if isinstance(x, Cancel):
                summ.append(["c", int(x.order.market_id), int(x.order.order_id if x.order.order_id is not None else -1), REC.obj(x.order)])
            else:
                u = REC.U(x.market_id).u
                summ.append(["o", int(x.market_id), bool(x.is_buy), x.kind == MARKET_ORDER,
                             0 if x.price is None else max(_soft(u, x.price), 0), int(x.volume), int(x.ttl or 0), REC.obj(x),
                             int(x.agent_id)])
        REC.emit("ret", a=self.agent_id, hft=hft, t=int(t), batch=summ)
        return batch

    def _spoof(self, batch, markets):
        """contract breach (negative scenario of C04): an order naming ANOTHER agent, alone or among own orders"""
        r = self.prng
        others = [a.agent_id for a in self.simulator.agents if a.agent_id != self.agent_id]
        acc = [m for m in markets if self.is_market_accessible(m.market_id)]
        if not others or not acc:
            return batch
        m = r.choice(acc)
        forged = Order(agent_id=r.choice(others), market_id=m.market_id, is_buy=r.random() < 0.5, kind=LIMIT_ORDER, volume=1,
                       price=max(1, math.floor(m.get_market_price() / m.tick_size)) * m.tick_size)
        own = [x for x in batch if isinstance(x, Order)] if r.random() < 0.7 else []
        own.insert(r.randint(0, len(own)), forged)
        return own

    def _probe_future(self, markets):
        """C06: a user program asking a market about the future must be refused (recorded in the market's history)."""
        r = self.prng
        m = r.choice(markets)
        accs = SINGLE_ACCESSORS + PLURAL_ACCESSORS
        if isinstance(m, IndexMarket):
            accs = accs + INDEX_TIME_ACCESSORS + INDEX_TIME_ACCESSORS      # an index market also answers through these
        acc = r.choice(accs)
        t = m.get_time() + r.choice([1, 1, 2, 0])
        try:
            if acc in PLURAL_ACCESSORS:
                getattr(m, acc)(times_argument(t, r.randrange(6), r.random() < 0.5))
            else:
                getattr(m, acc)(t)
            res = "value"
        except AssertionError:
            res = "refused"
        except Exception as ex:  # noqa: BLE001
            res = "error-" + type(ex).__name__
        if m.market_id in REC.book_ev:
            REC.book_ev[m.market_id].append({"k": "probe", "acc": acc, "t": int(t), "res": res})

    def _random_batch(self, markets):
        r, p = self.prng, self.p
        if r.random() < p["pEmpty"]:
            return []
        out = []
        acc = [m for m in markets if self.is_market_accessible(m.market_id)]
        for _ in range(r.randint(1, p["maxBatch"])):
            m = r.choice(acc)
            taken = [id(c.order) for c in out if isinstance(c, Cancel)]
            cands = [o for o in self.mine if o.order_id is not None and id(o) not in taken]
            if r.random() < p["pCancel"] and cands:
                old = getattr(self, "_old_cancels", None)
                if old is None:
                    old = self._old_cancels = []
                live = [c for c in old if id(c.order) not in taken and c.order.order_id is not None]
                if live and r.random() < 0.2:
                    c = r.choice(live)                       # a Cancel object handed in a second time (at a later step)
                elif r.random() < 0.2:
                    c = Cancel(order=r.choice(cands), placed_at=max(0, m.get_time() - 2))      # built with a placed_at of its own
                else:
                    c = Cancel(order=r.choice(cands))
                old.append(c)
                out.append(c)
                continue
            mo = r.random() < p["pMarket"]
            tick = m.tick_size
            base = m.get_market_price()
            if p.get("absBase"):
                # prices around a fixed level (events scenarios: far outside / on the edge of / inside a band)
                lvl = int(p["absBase"][m.market_id] if isinstance(p["absBase"], list) else p["absBase"]) + r.randint(-p["spread"], p["spread"])
            else:
                lvl = math.floor(base / tick) + r.randint(-p["spread"], p["spread"])
            px = max(1, lvl) * tick
            if r.random() < p["pOff"]:
                px += tick / 2
            if p.get("penny") and lvl <= 0:
                px = tick / 2           # positive, below one tick: a bid is accepted at price 0, which is a price
            if float(px).is_integer() and r.random() < p.get("pInt", 0.25):
                px = int(px)            # an integral price handed over as a Python int is the same price
            o = Order(agent_id=self.agent_id, market_id=m.market_id, is_buy=r.random() < 0.5,
                      kind=MARKET_ORDER if mo else LIMIT_ORDER, volume=r.randint(1, p["maxVol"]),
                      price=None if mo else px, ttl=(r.choice(p["ttls"]) or None))
            self.mine.append(o)
            out.append(o)
        return out

    def submitted_order(self, log):
        REC.emit("cb", kind="sub", a=self.agent_id, m=int(log.market_id), id=int(log.order_id), hold=REC.holdings())

    def canceled_order(self, log):
        REC.emit("cb", kind="can", a=self.agent_id, m=int(log.market_id), id=int(log.order_id), hold=REC.holdings())

    def executed_order(self, log):
        u = REC.U(log.market_id).u
        REC.emit("cb", kind="exe", a=self.agent_id, m=int(log.market_id), b=int(log.buy_order_id), s=int(log.sell_order_id),
                 v=int(log.volume), px=_soft(u, log.price), t=int(log.time), ba=int(log.buy_agent_id), sa=int(log.sell_agent_id),
                 hold=REC.holdings())


class ProbeArbitrageAgent(ArbitrageAgent):
    """the library's ArbitrageAgent with the probes of a scripted agent around it (consultations, returned batches, callbacks):
    its strategy is untouched"""

    def submit_orders(self, markets):
        t = markets[0].get_time()
        REC.flush_quiet()
        REC.emit("consult", a=self.agent_id, hft=True, t=int(t))
        batch = super().submit_orders(markets=markets)
        summ = []
        for x in batch:
            u = REC.U(x.market_id).u
            summ.append(["o", int(x.market_id), bool(x.is_buy), x.kind == MARKET_ORDER,
                         0 if x.price is None else max(_soft(u, x.price), 0), int(x.volume), int(x.ttl or 0), REC.obj(x), int(x.agent_id)])
        REC.emit("ret", a=self.agent_id, hft=True, t=int(t), batch=summ)
        return batch

    submitted_order = ScriptMixin.submitted_order
    canceled_order = ScriptMixin.canceled_order
    executed_order = ScriptMixin.executed_order


class ScriptAgent(ScriptMixin, Agent):
    pass


class ScriptHFT(ScriptMixin, HighFrequencyAgent):
    pass


# ------------------------------------------------------------------------------------------------ events
HOOK_METHODS = {
    ("order", True): "hooked_before_order", ("order", False): "hooked_after_order",
    ("cancel", True): "hooked_before_cancel", ("cancel", False): "hooked_after_cancel",
    ("execution", False): "hooked_after_execution",
    ("session", True): "hooked_before_session", ("session", False): "hooked_after_session",
    ("market", True): "hooked_before_step_for_market", ("market", False): "hooked_after_step_for_market",
}


class ProbeEvent(EventABC):
    """User-written event registering an arbitrary set of hooks and recording every call.
    settings["hooks"] = [[type, is_before, times|None, filter], ...]; filter "" | "class:Market" |
    "class:IndexMarket" | "inst:<market name>".  settings["bump"] = n: a before-order hook raises the
    price of the pending limit order by n ticks (before hooks may alter a pending order)."""

    hook_specs, bump, dup, dupreg = [], 0, False, None      # (a runner that asks for the hooks before setup gets none)
    session_cancel = False

    def setup(self, settings, *args, **kwargs):
        super().setup(settings, *args, **kwargs)
        self.hook_specs = settings.get("hooks", [])
        self.bump = int(settings.get("bump", 0))
        self.dup = bool(settings.get("registerTwice", False))
        # C17 "components must be distinct": at time t a user program tries to register a component of an index a second
        # time ([index name, component name, t]); the attempt must be refused and must leave the index as it was
        self.dupreg = settings.get("dupRegister")
        # C10 "no later than the next session boundary": a rule that clears part of the book at the session switch - the
        # before-session hook cancels the oldest resting order of every market (records written OUTSIDE any step)
        self.session_cancel = bool(settings.get("sessionCancel", False))

    def hook_registration(self):
        hooks = []
        for typ, before, times, flt in self.hook_specs:
            kw = {}
            if flt.startswith("class:"):
                kw["specific_class"] = IndexMarket if flt == "class:IndexMarket" else Market
            elif flt.startswith("inst:"):
                kw["specific_instance"] = self.simulator.name2market[flt[5:]]
            hooks.append(EventHook(event=self, hook_type=typ, is_before=bool(before),
                                   time=None if times is None else list(times), **kw))
        if self.dup and hooks:
            hooks.append(hooks[0])
        if self.dupreg:
            hooks.append(EventHook(event=self, hook_type="market", is_before=True, time=[int(self.dupreg[2])],
                                   specific_instance=self.simulator.name2market[self.dupreg[0]]))
        return hooks

    def _h(self, typ, before, **kw):
        REC.emit("hook", ev=self.event_id, typ=typ, before=before, **kw)

    def hooked_before_order(self, simulator, order):
        m = simulator.id2market[order.market_id]
        self._h("order", True, m=int(order.market_id), t=int(m.get_time()), obj=REC.obj(order), placed=order.placed_at is not None)
        if self.bump and order.price is not None:
            order.price = order.price + self.bump * m.tick_size

    def hooked_after_order(self, simulator, order_log):
        self._h("order", False, m=int(order_log.market_id), t=int(order_log.time), id=int(order_log.order_id))

    def hooked_before_cancel(self, simulator, cancel):
        m = simulator.id2market[cancel.order.market_id]
        self._h("cancel", True, m=int(cancel.order.market_id), t=int(m.get_time()), id=int(cancel.order.order_id),
                placed=cancel.placed_at is not None)

    def hooked_after_cancel(self, simulator, cancel_log):
        self._h("cancel", False, m=int(cancel_log.market_id), t=int(cancel_log.cancel_time), id=int(cancel_log.order_id))

    def hooked_after_execution(self, simulator, execution_log):
        g = execution_log
        self._h("execution", False, m=int(g.market_id), t=int(g.time), b=int(g.buy_order_id), s=int(g.sell_order_id), v=int(g.volume))

    def hooked_before_session(self, simulator, session):
        self._h("session", True, s=int(session.session_id), t=int(session.session_start_time))
        if self.session_cancel:
            for market in simulator.markets:
                resting = sorted(market.buy_order_book.priority_queue + market.sell_order_book.priority_queue, key=lambda o: o.order_id)
                if resting:
                    log = market._cancel_order(cancel=Cancel(order=resting[0]))
                    simulator.id2agent[resting[0].agent_id].canceled_order(log=log)

    def hooked_after_session(self, simulator, session):
        self._h("session", False, s=int(session.session_id), t=int(session.session_start_time + session.iteration_steps - 1))

    def hooked_before_step_for_market(self, simulator, market):
        self._h("market", True, m=int(market.market_id), t=int(market.get_time()))
        if self.dupreg and market.name == self.dupreg[0] and int(market.get_time()) == int(self.dupreg[2]):
            refused = False
            try:
                market._add_market(simulator.name2market[self.dupreg[1]])
            except ValueError:
                refused = True
            REC.emit("dupreg", m=int(market.market_id), refused=refused)

    def hooked_after_step_for_market(self, simulator, market):
        self._h("market", False, m=int(market.market_id), t=int(market.get_time()))


# ------------------------------------------------------------------------------------------------ prng
class ScriptRandom(random.Random):
    """The runner's generator: records every draw; optionally forces permutations (sample) and gate values
    (random) chosen by a replayed TLC behaviour.  Defines getrandbits next to random so that randint /
    sample keep using the integer path of the base class (see DESIGN.md section 9)."""

    def __init__(self, seed, forced=None):
        super().__init__(seed)
        self.forced = forced          # dict: "sample" -> list of permutations (index lists), "random" -> list of floats
        self.active = False

    def random(self):
        x = super().random()
        if self.active:
            if self.forced and self.forced.get("random"):
                x = self.forced["random"].pop(0)
            REC.emit("draw", fn="random", x=int(x * 1000000))
        return x

    def getrandbits(self, k):
        return super().getrandbits(k)

    def sample(self, population, k, **kw):
        if self.active and self.forced and self.forced.get("sample"):
            perm = self.forced["sample"].pop(0)
            if sorted(perm) != list(range(len(population))) or k != len(population):
                # the code under test asks for a draw the replayed behaviour does not contain (it has left the schedule TLC
                # chose): the rest of the run is unforced; the replay reports the state mismatch and the trace
                # specifications judge the recorded run as they judge any other
                self.forced = None
                REC.emit("offschedule", n=len(population), kk=int(k))
                res = super().sample(population, k, **kw)
            else:
                res = [population[i] for i in perm]
        else:
            res = super().sample(population, k, **kw)
        if self.active:
            REC.emit("draw", fn="sample", n=len(population), kk=int(k))
        return res
