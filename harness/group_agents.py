"""C20: built-in agents (decision tables replayed into real agent objects, judged by TraceAgents)."""
import json
import os
import time

from . import evidence, judge
from .group_table import table_models, validate_cases


def check(tier, seed, t0):
    from . import drive_agents
    prop = "C20"
    models = [] if os.environ.get("VERIF_TRACES_ONLY") == "1" else table_models([("TableAgents", "TableAgents.cfg")])
    groups = drive_agents.all_cases(tier, seed)
    cases, wall = validate_cases(groups, "TraceAgents", prop)
    viol, known, lines = judge.judge(prop, cases)
    for ln in lines:
        print(ln)
    n = sum(len(v) for v in groups.values())
    distinct = len({json.dumps(c, sort_keys=True) for v in groups.values() for c in v if c["ords"]})
    cov = {"states": sum(m["states"] for m in models), "transitions": sum(m["transitions"] for m in models),
           "traces_validated_against_impl": n, "samples": [groups["fcn"][3], groups["mm"][0], groups["arb"][1]],
           "evaluations": n, "distinct_nontrivial": distinct,
           "rule": "distinct tabulated (agent parameters, market state) cases in which the agent returned at least one order",
           "exhaustive": tier == "thorough", "design_models": models, "cases_per_table": {k: len(v) for k, v in groups.items()},
           "trace_validation_wall_s": round(wall, 1)}
    evidence.write(prop, tier, seed, "model_checking", cov, ASSUMPTIONS, time.time() - t0, viol)
    print("%s tier=%s: design states=%d, cases=%d, violations=%d, known=%d (%.0fs)" % (prop, tier, cov["states"], n, viol, known, time.time() - t0))
    return 1 if viol else 0


ASSUMPTIONS = [
    "admissible parameters only: window >= 1, margin in [0, 1], arbitrage agents can access the index and all its components (equal outstanding shares), the market maker can access its target",
    "FCN direction: prices on a geometric grid and noise k ln 2, cases where non-zero terms cancel exactly are excluded (the float sign is a rounding artefact there)",
    "FCN price: compared with an independent evaluation of the documented formula (relative 1e-12) - a harness side condition, not decided by TLC",
]
