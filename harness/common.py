"""Shared plumbing for the verification harness (paths, seeds, exact projection of floats)."""
import hashlib
import json
import math
import os
import random
import sys
import warnings

VERIF = os.path.dirname(os.path.dirname(os.path.abspath(__file__)))
SPEC = os.path.join(VERIF, "spec")
WORK = os.path.join(VERIF, ".work")
EVIDENCE = os.path.join(VERIF, "evidence")
REPLAYS = os.path.join(VERIF, "replays")
REPO = os.environ.get("PAMS_REPO", "/repo")


class MachineryError(Exception):
    """Something in the verification machinery itself failed (exit code 2, never a VIOLATION)."""


def seed_from_env(default=20260101):
    try:
        return int(os.environ.get("VERIF_SEED", default))
    except ValueError:
        return default


def sub_seed(seed, *labels):
    h = hashlib.sha256(("%d|" % seed + "|".join(str(x) for x in labels)).encode()).digest()
    return int.from_bytes(h[:6], "big")


def import_pams():
    """Import pams from the tree under test and make sure it really is that tree."""
    if REPO not in sys.path:
        sys.path.insert(0, REPO)
    warnings.simplefilter("ignore")
    import pams  # noqa

    f = os.path.realpath(pams.__file__)
    if not f.startswith(os.path.realpath(REPO) + os.sep):
        raise MachineryError("pams imported from %s, expected under %s" % (f, REPO))
    return pams


NOPX = -(2 ** 30)      # PamsOrder!NoPx: Python's None for a price (0 and negative prices are prices: Order only warns about them)
BADPX = -(2 ** 30) - 1   # a value that cannot be projected to the unit grid (soft projection)


class Units:
    """Projection of float prices to integer 'units' (one tick = den units).

    exact=True : tick is dyadic; x must be EXACTLY k*unit (IEEE arithmetic in the code is exact there,
                 so equality is the oracle).  A failed projection is a machinery error, except where the
                 caller asks for a soft result (accepted prices off the grid are a property clause).
    exact=False: decimal ticks; k = round(x/unit) with |x/unit - k| < 1e-6 asserted (order and equality
                 of prices are all that matter for the book logic).
    """

    def __init__(self, tick, den, exact, base=0.0):
        self.tick = tick
        self.den = den
        self.exact = exact
        self.unit = tick / den
        # prices far from zero on a fine grid (price / tick beyond 2^30): units are counted from `base`, a multiple of the tick
        self.base = base
        self.base_units = int(round(base / self.unit))
        if self.base_units * self.unit != base or self.base_units % den != 0:
            raise MachineryError("base %r is not a multiple of the tick %r" % (base, tick))

    def u(self, x, soft=False):
        if x is None:
            return NOPX
        if isinstance(x, float) and (math.isnan(x) or math.isinf(x)):
            if soft:
                return None
            raise MachineryError("non-finite value in projection: %r" % (x,))
        k = round(x / self.unit)
        if self.exact:
            ok = (k * self.unit == x)
        else:
            ok = abs(x / self.unit - k) < 1e-6
        k -= self.base_units
        if not ok or abs(k) >= 2 ** 30:
            if soft:
                return None
            raise MachineryError("value %r is not projectable to units of %r (exact=%s)" % (x, self.unit, self.exact))
        return int(k)

    def f(self, k):
        """units -> float price"""
        return (k + self.base_units) * self.unit

    def total(self, x, volume, soft=False):
        """a turnover (sum of price x volume over `volume` shares) in units x shares, counted from base like the prices"""
        if not self.base_units:
            return self.u(x, soft=soft)
        k = round(x / self.unit)
        if k * self.unit != x or abs(k - self.base_units * volume) >= 2 ** 30:
            if soft:
                return None
            raise MachineryError("turnover %r is not projectable" % (x,))
        return int(k - self.base_units * volume)


def dumps(obj):
    return json.dumps(obj, separators=(",", ":"))


def rng_for(seed, *labels):
    return random.Random(sub_seed(seed, *labels))
