"""Run-level driver: random CONFIGURATIONS executed by the real SequentialRunner with all probes on."""
import contextlib
import copy
import io
import random

from . import probes
from .common import VERIF, MachineryError, import_pams, sub_seed

import_pams()
from pams.runners.sequential import SequentialRunner  # noqa: E402

PROBE_CLASSES = [probes.ScriptAgent, probes.ScriptHFT, probes.ProbeMarket, probes.ProbeIndexMarket, probes.ProbeEvent,
                 probes.ProbeArbitrageAgent]


def rate_class(x):
    return 0 if x <= 0.0 else (2 if x >= 1.0 else 1)


def random_config(rng, flavour="mixed"):
    """1-3 markets (optionally an index market), 2-8 scripted agents (normal and HFT), 1-3 sessions with all
    flag / cap / rate combinations, 0-3 probe events with random hook sets."""
    nm = rng.choice([1, 1, 2, 2, 3])
    tick = rng.choice([1.0, 0.5, 0.25, 2.0])
    names = ["M%d" % i for i in range(nm)]
    cfg = {"simulation": {"markets": list(names), "agents": ["N", "H"], "sessions": []}}
    for i, m in enumerate(names):
        cfg[m] = {"class": "ProbeMarket", "tickSize": tick, "marketPrice": (100 + 10 * i) * tick,
                  "outstandingShares": rng.choice([100, 200, 300, 700])}
    all_markets = list(names)
    if nm >= 2 and rng.random() < 0.5:
        cfg["IDX"] = {"class": "ProbeIndexMarket", "tickSize": tick, "marketPrice": 105.0 * tick, "markets": list(names)}
        cfg["simulation"]["markets"].append("IDX")
        all_markets.append("IDX")
    script = {"pEmpty": rng.choice([0.0, 0.3, 0.6]), "pCancel": rng.choice([0.1, 0.3]), "pMarket": rng.choice([0.0, 0.1, 0.3]),
              "maxBatch": rng.choice([1, 2, 3]), "maxVol": rng.choice([1, 3, 5]), "spread": rng.choice([1, 3, 5]),
              "ttls": rng.choice([[0], [0, 1, 2, 5], [1, 1, 2]]), "pOff": rng.choice([0.0, 0.25])}
    # (sometimes endowments so small that positions and cash go negative: short sales and debts are ordinary fills)
    cfg["N"] = {"class": "ScriptAgent", "numAgents": rng.randint(1, 5), "markets": list(all_markets),
                "assetVolume": rng.choice([50, 50, 50, 1, 0]), "cashAmount": rng.choice([10000, 10000, 64]), "script": script}
    if rng.random() < 0.3:
        # the endowment comes through a two-level `extends` chain: the middle entry overrides the base, the leaf defines neither
        leaf = cfg["N"]
        cfg["NB0"] = {"cashAmount": 512, "assetVolume": 7}
        cfg["NB1"] = {"extends": "NB0", "cashAmount": leaf.pop("cashAmount"), "assetVolume": leaf.pop("assetVolume")}
        leaf["extends"] = "NB1"
    hscript = dict(script)
    hscript["pEmpty"] = rng.choice([0.0, 0.5])
    cfg["H"] = {"class": "ScriptHFT", "numAgents": rng.randint(1, 3), "markets": list(all_markets),
                "assetVolume": 50, "cashAmount": 10000, "script": hscript}
    if rng.random() < 0.2:
        cfg["simulation"]["agents"] = ["N"]
    ns = rng.randint(1, 3)
    total = 0
    for s in range(ns):
        steps = rng.randint(1, 6)
        if ns > 1 and rng.random() < 0.12:
            steps = 0                      # a session of no steps is a valid setting: it begins and ends, nothing else
        sess = {"sessionName": s, "iterationSteps": steps, "withOrderPlacement": rng.random() < 0.85,
                "withOrderExecution": rng.random() < 0.65, "withPrint": False,
                "maxNormalOrders": rng.choice([0, 1, 2, 3, 5]), "maxHighFrequencyOrders": rng.choice([0, 1, 2]),
                "highFrequencySubmitRate": rng.choice([0.0, 0.5, 1.0, 1.0])}
        total += steps
        cfg["simulation"]["sessions"].append(sess)
    # probe events
    kinds = [("order", True), ("order", False), ("cancel", True), ("cancel", False), ("execution", False),
             ("session", True), ("session", False), ("market", True), ("market", False)]
    nev = rng.choice([0, 1, 1, 2, 3])
    for e in range(nev):
        hooks = []
        for typ, before in rng.sample(kinds, rng.randint(1, 5)):
            tms = None
            if rng.random() < 0.6:
                tms = sorted(rng.randint(0, total + 1) for _ in range(rng.randint(0, 4)))   # may repeat a time
            flt = ""
            if typ == "market" and rng.random() < 0.6:
                flt = rng.choice(["class:Market", "class:IndexMarket", "inst:" + rng.choice(all_markets)])
            hooks.append([typ, before, tms, flt])
        name = "EV%d" % e
        cfg[name] = {"class": "ProbeEvent", "hooks": hooks, "bump": rng.choice([0, 0, 1])}
        sess = rng.choice(cfg["simulation"]["sessions"])
        sess.setdefault("events", []).append(name)
    return cfg


PHASES = [
    ("clock", ("_update_times_on_markets", "_update_time_on_market", "_update_time", "_set_time")),
    ("hooks", ("_trigger_event_before_order", "_trigger_event_after_order", "_trigger_event_before_cancel",
               "_trigger_event_after_cancel", "_trigger_event_after_execution", "_trigger_event_before_session",
               "_trigger_event_after_session", "_trigger_event_before_step_for_market", "_trigger_event_after_step_for_market")),
    ("ledger", ("_update_agents_for_execution",)),
    ("callback", ("submitted_order", "executed_order", "canceled_order")),
    ("match", ("_execution",)),
    ("accept", ("_add_order", "_cancel_order")),
    ("log", ("_process", "process", "write", "bulk_write", "write_and_direct_process", "read_and_write",
             "read_and_write_with_direct_process")),
    ("setup", ("_setup", "setup", "_generate_markets", "_generate_agents", "_generate_sessions")),
    ("sched", ("_collect_orders_from_normal_agents", "_handle_orders", "_update_markets", "_iterate_market_updates", "_run")),
]


def abort_phase(tb):
    """Which part of the simulator was executing when the run died (innermost recognisable frame)."""
    names = [f.name for f in tb]
    for name in reversed(names):
        for phase, fns in PHASES:
            if name in fns:
                return phase
    return "other"


def configured_endowment(cfg, sim, rec):
    """What every agent starts with AS CONFIGURED: its group's cashAmount / assetVolume (constants in the harness's
    configurations), each key taken from the entry itself or else from its NEAREST ancestor along `extends` - resolved here,
    not by the code under test.  -> [[cash units, shares per market ...] per agent], or [] when a value is not a constant."""
    def lookup(name, key, seen=()):
        e = cfg[name]
        if key in e:
            return e[key]
        if "extends" in e and e["extends"] not in seen:
            return lookup(e["extends"], key, seen + (name,))
        return None
    out = []
    for group in cfg["simulation"]["agents"]:
        cash, vol, mk = lookup(group, "cashAmount"), lookup(group, "assetVolume"), lookup(group, "markets")
        n = lookup(group, "numAgents")
        if not all(isinstance(x, (int, float)) for x in (cash, vol)) or not isinstance(n, int) or not isinstance(mk, list):
            return []
        acc = set()
        for nm in mk:
            acc |= {m.market_id for m in sim.markets_group_name2market.get(nm, [])} | ({sim.name2market[nm].market_id} if nm in sim.name2market else set())
        for _ in range(n):
            out.append([rec.cash_units(float(cash))] + [int(vol) if m.market_id in acc else 0 for m in sim.markets])
    return out if len(out) == len(sim.agents) else []


def declared_hooks(cfg):
    """The hooks the probe events of a configuration DECLARE (what C13 calls registered), derived from the configuration
    alone: event ids count the entries of the sessions' event lists in order; one record per declared hook
    [event id, type, before, times or [-1], filter kind, filter market id]."""
    mid = {n: i for i, n in enumerate(cfg["simulation"]["markets"])}
    hooks, bump = [], []
    eid = 0
    for s in cfg["simulation"]["sessions"]:
        for en in s.get("events", []):
            e = cfg[en]
            if e.get("class") == "ProbeEvent":
                for typ, before, times, flt in e.get("hooks", []):
                    fk, fm = 0, -1
                    if flt == "class:Market":
                        fk = 1
                    elif flt == "class:IndexMarket":
                        fk = 2
                    elif flt.startswith("inst:"):
                        fk, fm = 3, mid[flt[5:]]
                    hooks.append([eid, typ, bool(before), [-1] if times is None else [int(x) for x in times], fk, fm])
                if e.get("dupRegister"):
                    hooks.append([eid, "market", True, [int(e["dupRegister"][2])], 3, mid[e["dupRegister"][0]]])
                if e.get("bump"):
                    bump.append([eid, int(e["bump"])])
            eid += 1
    return hooks, bump


HARMLESS_EVENTS = ("ProbeEvent", "FundamentalPriceShock", "PriceLimitRule", "OrderMistakeShock")


def running_is_configured(cfg):
    """True when no event of the configuration can stop a market (only classes known not to touch the running flag are
    declared): a market then runs exactly in the sessions configured with order execution"""
    for s in cfg.get("simulation", {}).get("sessions", []):
        if not isinstance(s, dict) or "extends" in s:
            return False
        for en in s.get("events", []):
            e = cfg.get(en)
            seen = 0
            while isinstance(e, dict) and "class" not in e and "extends" in e and seen < 8:
                e = cfg.get(e["extends"])
                seen += 1
            if not isinstance(e, dict) or e.get("class") not in HARMLESS_EVENTS:
                return False
    return True


def session_truth(cfg, sim):
    """Session parameters AS CONFIGURED (what the scheduling properties are stated over): explicit keys of the session's
    json entry win; the Session object is consulted only for what the entry leaves to defaults or inheritance."""
    out = []
    entries = cfg.get("simulation", {}).get("sessions", [])
    for i, s in enumerate(sim.sessions):
        c = entries[i] if i < len(entries) and isinstance(entries[i], dict) and "extends" not in entries[i] else {}
        out.append([int(c.get("iterationSteps", s.iteration_steps)), bool(c.get("withOrderPlacement", s.with_order_placement)),
                    bool(c.get("withOrderExecution", s.with_order_execution)),
                    int(c.get("maxNormalOrders", s.max_normal_orders)),
                    int(c.get("maxHighFrequencyOrders", c.get("maxHifreqOrders", s.max_high_frequency_orders))),      # (deprecated spellings)
                    rate_class(c.get("highFrequencySubmitRate", c.get("hifreqSubmitRate", s.high_frequency_submission_rate))),
                    int(s.session_start_time)])
    return out


def execute(cfg, seed, exact=True, forced_draws=None, scripts=None, extra_classes=(), no_logger=False, cash_unit=None):
    """Runs cfg with the probes; returns the recorded run (dict) - never raises for exceptions of the code
    under test (they are recorded as an `abort` event)."""
    settings = copy.deepcopy(cfg)
    vf = settings.pop("_verif", {})
    if vf.get("warm"):
        # the SAME settings object has configured a runner before (the usual way of repeating a simulation): what that first
        # runner did to it must not change what the second one does
        probes.set_recorder(probes.Recorder(exact=exact))
        try:
            with contextlib.redirect_stdout(io.StringIO()):
                r0 = SequentialRunner(settings=settings, prng=probes.ScriptRandom(seed), logger=None, simulator_class=probes.ProbeSimulator)
                for c in list(PROBE_CLASSES) + list(extra_classes):
                    r0.class_register(c)
                r0._setup()
        except MachineryError:
            raise
        except Exception:  # noqa: BLE001 - judged on the recorded (second) runner
            pass
    rec = probes.set_recorder(probes.Recorder(exact=exact))
    if scripts:
        rec.scripts = scripts
    if cash_unit:
        rec.cash_unit = cash_unit
    prng = probes.ScriptRandom(seed, forced=forced_draws)
    abort = ""
    runner = None
    out = io.StringIO()
    try:
        with contextlib.redirect_stdout(out):
            runner = SequentialRunner(settings=settings, prng=prng, logger=None if no_logger else probes.RecLogger(),
                                      simulator_class=probes.ProbeSimulator)
            for c in list(PROBE_CLASSES) + list(extra_classes):
                runner.class_register(c)
            runner._setup()
            sim = runner.simulator
            if exact and sim.markets:
                # cash is logged in the finest price unit of the run when that is below the usual 2^-7 (a function of the cfg)
                rec.cash_unit = min([rec.cash_unit] + [rec.U(m.market_id).unit for m in sim.markets])
            hooks, bump = declared_hooks(cfg)
            if running_is_configured(cfg):
                rec.exec_truth = [bool(x[2]) for x in session_truth(cfg, sim)]
            rec.emit("init", hold=rec.holdings(), endow=configured_endowment(cfg, sim, rec), hooks=hooks, bump=bump,
                     cs=[int(round(rec.U(m.market_id).unit / rec.cash_unit)) if exact else 0 for m in sim.markets],
                     acc=[[bool(a.is_market_accessible(m.market_id)) for m in sim.markets] for a in sim.agents],
                     hft=[isinstance(a, probes.HighFrequencyAgent) for a in sim.agents],
                     idx=[isinstance(m, probes.IndexMarket) for m in sim.markets],
                     sess=session_truth(cfg, sim))
            prng.active = True
            runner._run()
    except MachineryError:
        raise
    except Exception as ex:  # noqa: BLE001 - the code under test aborted; recorded, judged by the trace specs
        import traceback
        tb = traceback.extract_tb(ex.__traceback__)
        if tb and (tb[-1].filename.startswith(VERIF) or any(f.name == "_random_batch" for f in tb)):
            raise MachineryError("exception inside the harness: %s\n%s" % (ex, "".join(traceback.format_tb(ex.__traceback__)[-3:])))
        abort = type(ex).__name__ + ":" + str(ex)[:80]
        rec.emit("abort", exc=type(ex).__name__, phase=abort_phase(tb))
    books = {}
    for mid, hdr in rec.book_hdr.items():
        h = dict(hdr)
        h["ev"] = rec.book_ev[mid]
        books[mid] = h
    return {"cfg": cfg, "seed": seed, "exact": exact, "ev": rec.ev, "books": books, "abort": abort}


def spoof_runs(n, seed):
    """negative scenarios of C04 at run level: some scripted agent hands the runner an order naming another agent"""
    rng = random.Random(sub_seed(seed, "spoof-configs"))
    runs = []
    for i in range(n):
        cfg = random_config(rng)
        for g in ("N", "H"):
            if g in cfg:
                cfg[g]["script"] = dict(cfg[g]["script"], pSpoof=rng.choice([0.15, 0.4]), pEmpty=0.0, maxBatch=3)
        for s in cfg["simulation"]["sessions"]:
            s["withOrderPlacement"] = True
            s["maxNormalOrders"] = max(2, s["maxNormalOrders"])
        r = execute(cfg, rng.randrange(2 ** 31))
        r["src"] = "spoof"
        runs.append(r)
    return runs


def penny_runs(n, seed):
    """prices next to zero: bids below one tick rest at price 0 and are hit by market orders (fills at price 0 move shares
    and no cash)"""
    rng = random.Random(sub_seed(seed, "penny-configs"))
    runs = []
    for i in range(n):
        cfg = random_config(rng)
        for name in cfg["simulation"]["markets"]:
            if "marketPrice" in cfg[name]:
                cfg[name]["marketPrice"] = 2.0 * cfg[name]["tickSize"]
        for g in ("N", "H"):
            if g in cfg:
                cfg[g]["script"] = dict(cfg[g]["script"], penny=True, spread=3, pMarket=0.3, pEmpty=0.1)
        r = execute(cfg, rng.randrange(2 ** 31))
        r["src"] = "penny-config"
        runs.append(r)
    return runs


def handover_runs(n, seed):
    """a session that takes orders without matching them hands its books over to a session that matches without taking
    orders (and on to whatever follows): the markets of the second one RUN - their price follows the quotes left behind"""
    rng = random.Random(sub_seed(seed, "handover-configs"))
    runs = []
    for i in range(n):
        cfg = random_config(rng)
        ss = cfg["simulation"]["sessions"]
        while len(ss) < 2:
            ss.append(dict(ss[0], sessionName=len(ss)))
            ss[-1].pop("events", None)
        ss[0].update(withOrderPlacement=True, withOrderExecution=False, iterationSteps=rng.randint(2, 5), maxNormalOrders=max(2, ss[0]["maxNormalOrders"]))
        ss[1].update(withOrderPlacement=False, withOrderExecution=True, iterationSteps=rng.randint(2, 4))
        cfg["N"]["script"] = dict(cfg["N"]["script"], pEmpty=0.0, pMarket=0.0, pCancel=0.1)
        r = execute(cfg, rng.randrange(2 ** 31))
        r["src"] = "handover-config"
        runs.append(r)
    return runs


def session_cancel_runs(n, seed):
    """a user event whose before-session hook cancels resting orders at the session switch: records that come into being
    between two sessions (C10: delivered no later than the boundary that follows, in the order in which things happened)"""
    rng = random.Random(sub_seed(seed, "session-cancel-configs"))
    runs = []
    for i in range(n):
        cfg = random_config(rng)
        ss = cfg["simulation"]["sessions"]
        while len(ss) < 2:
            ss.append(dict(ss[0], sessionName=len(ss)))
            ss[-1].pop("events", None)
        ss[0].update(withOrderPlacement=True, iterationSteps=max(2, ss[0]["iterationSteps"]), maxNormalOrders=max(2, ss[0]["maxNormalOrders"]))
        ss[0]["withOrderExecution"] = rng.random() < 0.5
        cfg["N"]["script"] = dict(cfg["N"]["script"], pEmpty=0.0, pMarket=0.0)
        for k, s in enumerate(ss[1:], start=1):
            name = "SC%d" % k
            cfg[name] = {"class": "ProbeEvent", "hooks": [["session", True, None, ""]], "bump": 0, "sessionCancel": True}
            s.setdefault("events", []).append(name)
        r = execute(cfg, rng.randrange(2 ** 31))
        r["src"] = "session-cancel-config"
        runs.append(r)
    return runs


def legacy_reuse_runs(n, seed):
    """the deprecated spellings of the high-frequency cap and rate (still honoured, with a warning), in a settings object that
    has configured a runner before: every session of the second runner is run with the caps and rates AS CONFIGURED"""
    rng = random.Random(sub_seed(seed, "legacy-reuse-configs"))
    runs = []
    for i in range(n):
        cfg = random_config(rng)
        for k, s in enumerate(cfg["simulation"]["sessions"]):
            s["withOrderPlacement"] = True
            s["maxHifreqOrders"] = s.pop("maxHighFrequencyOrders") if rng.random() < 0.5 else rng.choice([0, 2, 3])
            s["hifreqSubmitRate"] = s.pop("highFrequencySubmitRate") if rng.random() < 0.5 else rng.choice([0.0, 0.5])
            s.pop("maxHighFrequencyOrders", None)
            s.pop("highFrequencySubmitRate", None)
        cfg["simulation"]["agents"] = ["N", "H"]
        cfg["H"]["script"] = dict(cfg["H"]["script"], pEmpty=0.0)
        cfg["_verif"] = {"warm": i % 3 != 0}
        r = execute(cfg, rng.randrange(2 ** 31))
        r["src"] = "legacy-reuse-config"
        runs.append(r)
    return runs


def micro_runs(n, seed):
    """a grid far below the usual ones (tick 2^-18, about 4e-6): every fill moves price x volume of cash EXACTLY, also where
    that amount has more decimal places than any usual tick; cash is logged in units of half a tick"""
    rng = random.Random(sub_seed(seed, "micro-configs"))
    runs = []
    tick = 2.0 ** -18
    for i in range(n):
        cfg = random_config(rng)
        for name in cfg["simulation"]["markets"]:
            scale = tick / cfg[name]["tickSize"]
            cfg[name]["tickSize"] = tick
            cfg[name]["marketPrice"] = cfg[name]["marketPrice"] * scale
        for g in cfg:
            if isinstance(cfg[g], dict) and "cashAmount" in cfg[g]:
                cfg[g]["cashAmount"] = rng.choice([64, 16, 1])
        for s in cfg["simulation"]["sessions"]:
            s["withOrderExecution"] = True
        r = execute(cfg, rng.randrange(2 ** 31))
        r["src"] = "micro-config"
        runs.append(r)
    return runs


def hook_calls(run):
    """the sequence of user-hook invocations of a run, as the call keys of TraceHooks"""
    return [[e["ev"], e["typ"], bool(e["before"]), int(e["t"]), int(e["s"] if e["typ"] == "session" else e["m"])]
            for e in run["ev"] if e["k"] == "hook"]


def generate(n, seed, twin=False):
    """twin: every run with registered user hooks is executed a second time WITHOUT a logger (the default of the runner);
    the hook invocations of the twin go into the header of the logged run (C13: hooks do not depend on a logger)."""
    rng = random.Random(sub_seed(seed, "run-configs"))
    runs = []
    for i in range(n):
        cfg = random_config(rng)
        sd = rng.randrange(2 ** 31)
        run = execute(cfg, sd)
        if twin and any(e["k"] == "hook" for e in run["ev"]):
            t = execute(cfg, sd, no_logger=True)
            run["nolog"] = hook_calls(t)
        runs.append(run)
    return runs
