"""TLC on the run-level design models for the run-level properties."""
from . import tlc
from .common import MachineryError

RUNNER = {"quick": [("MC_PamsRunner_quick", 900)], "thorough": [("MC_PamsRunner_quick", 900), ("MC_PamsRunner_thorough", 5400)]}
SYSTEM = {"quick": [], "thorough": [("MC_PamsSystem_quick", 1800)]}
SYSTEM_HALT = [("MC_PamsSystem_halt", 900)]
HALT = {"quick": [("MC_PamsHalt_quick", 900)], "thorough": [("MC_PamsHalt_quick", 900), ("MC_PamsHalt_fixed", 3600)]}
TABLE_EVENTS = [("MC_TableEvents", 900)]
LOGGER = {"quick": [("MC_PamsLogger_quick", 600)], "thorough": [("MC_PamsLogger_quick", 600), ("MC_PamsLogger_thorough", 1800)]}
HOOKS = {"quick": [("MC_PamsHooks_quick", 600)], "thorough": [("MC_PamsHooks_quick", 600), ("MC_PamsHooks_thorough", 1800)]}
# design models that MUST be rejected by TLC: the defective design found in the pinned tree (regression of the spec)
MUST_FAIL = {"C16": [("MC_PamsHalt_asis", 900)], "C09": [("MC_PamsHalt_asis", 900)]}


def plan(prop, tier):
    if prop in ("C14", "C15", "C17"):
        return TABLE_EVENTS
    if prop == "C16":
        return HALT[tier] + SYSTEM_HALT + TABLE_EVENTS
    if prop == "C09":
        return RUNNER[tier] + HALT[tier] + SYSTEM[tier] + (SYSTEM_HALT if tier == "thorough" else [])
    if prop == "C05":
        return RUNNER[tier] + SYSTEM[tier]
    if prop == "C13":
        return RUNNER[tier] + HOOKS[tier]
    if prop == "C10":
        return RUNNER[tier] + LOGGER[tier]
    return RUNNER[tier]


def models(prop, tier):
    out = []
    for mod, to in plan(prop, tier):
        r = tlc.run_tlc(mod, mod + ".cfg", timeout=to, tag=mod)
        if not r.ok:
            raise MachineryError("design model %s: %s" % (mod, r.violation or r.error))
        out.append({"module": mod, "states": r.distinct, "transitions": r.generated, "depth": r.depth, "wall_s": round(r.wall, 1)})
    for mod, to in MUST_FAIL.get(prop, []):
        r = tlc.run_tlc(mod, mod + ".cfg", timeout=to, tag=mod)
        if r.violation is None:
            raise MachineryError("regression model %s was expected to violate an invariant (the defective as-found design) but TLC reported: %s" % (mod, r.error or "no error"))
        out.append({"module": mod, "states": r.distinct, "transitions": r.generated, "depth": r.depth, "wall_s": round(r.wall, 1),
                    "expected_violation": r.violation})
    return out
