"""TLC on the run-level design model (PamsRunner) for the run-level properties."""
from . import tlc
from .common import MachineryError

MODELS = {
    "quick": [("MC_PamsRunner_quick", "MC_PamsRunner_quick.cfg", 900)],
    "thorough": [("MC_PamsRunner_quick", "MC_PamsRunner_quick.cfg", 900),
                 ("MC_PamsRunner_thorough", "MC_PamsRunner_thorough.cfg", 5400)],
}


def models(prop, tier):
    out = []
    for mod, cfg, to in MODELS[tier]:
        r = tlc.run_tlc(mod, cfg, timeout=to, tag=mod)
        if not r.ok:
            raise MachineryError("design model %s: %s" % (mod, r.violation or r.error))
        out.append({"module": mod, "states": r.distinct, "transitions": r.generated, "depth": r.depth, "wall_s": round(r.wall, 1)})
    return out
