#!/bin/sh
# usage: seedmulti.sh <worktree> <property> <round>   (run from the root of a /verif tree or a snapshot of it)
# intake of the patch files mutants/N/{patch.diff,demo.py,NOTE.md} an agent left in a pristine worktree: each is applied
# to the worktree in turn, handed to harness.seedtool (which confirms it, applies it to /repo, runs the check, reverts)
wt=$1; prop=$2; round=$3
for d in "$wt"/mutants/*/; do
  [ -f "$d/patch.diff" ] || continue
  n=$(basename "$d")
  name="${prop}-a${round}-${n}"
  git -C "$wt" checkout -- pams
  if ! git -C "$wt" apply "$d/patch.diff"; then echo "=== $name: patch does not apply"; continue; fi
  rm -f "$wt"/demo_*.py "$wt"/MUTANT.md
  [ -f "$d/demo.py" ] && cp "$d/demo.py" "$wt/demo_${prop}.py"
  [ -f "$d/NOTE.md" ] && cp "$d/NOTE.md" "$wt/MUTANT.md"
  echo "=== $name"
  /venv/bin/python -m harness.seedtool "$wt" "$prop" "$name" 2>&1 | tail -3
  git -C "$wt" checkout -- pams
  rm -f "$wt"/demo_*.py "$wt"/MUTANT.md
done
