"""Spec -> code for the COMPOSED system: behaviours of PamsSystem (scheduler + real books + priced ledger) generated
by TLC are forced through the real SequentialRunner; after every step the books (order ids and remaining volumes),
the series rows, the clocks, the running flags and the holdings TLC computed are compared with the implementation."""
import glob
import os
import re
import shutil

from . import drive_run, probes, tlc
from .book_session import snap_market
from .common import WORK, MachineryError, sub_seed
from .replay_book import parse_behaviour
from .tlaparse import parse

from pams.order import LIMIT_ORDER, MARKET_ORDER, Cancel, Order  # noqa: E402

_RE_ACT = re.compile(r"^\\\* <(\w+)(?:\((.*)\))? line \d+", re.M)
RATE = {0: 0.0, 1: 0.5, 2: 1.0}
NN, NH, NM = 3, 2, 2
UNIT = 0.5            # Den = 2, tick 1.0
P0 = 40
SIM_SESS = [dict(steps=2, place=True, exe=False, maxN=2, maxH=1, rate=1), dict(steps=3, place=True, exe=True, maxN=3, maxH=2, rate=1),
            dict(steps=1, place=False, exe=True, maxN=1, maxH=1, rate=2), dict(steps=2, place=True, exe=True, maxN=2, maxH=1, rate=2)]
HALT = None
# the two simulation configurations (must mirror spec/MC_PamsSystem_sim.tla and spec/MC_PamsSystem_simh.tla)
PROFILES = {
    "plain": {"module": "MC_PamsSystem_sim", "sess": SIM_SESS, "halt": None},
    "halt": {"module": "MC_PamsSystem_simh",
             "sess": [dict(steps=3, place=True, exe=True, maxN=3, maxH=1, rate=1), dict(steps=4, place=True, exe=True, maxN=2, maxH=2, rate=2),
                      dict(steps=2, place=True, exe=False, maxN=2, maxH=1, rate=1), dict(steps=4, place=True, exe=True, maxN=3, maxH=1, rate=1)],
             "halt": {"targets": ["M0", "M1"], "rate": 1.0 / 16, "len": 2}},
}


def use_profile(name):
    global SIM_SESS, HALT
    SIM_SESS = PROFILES[name]["sess"]
    HALT = PROFILES[name]["halt"]
    return PROFILES[name]["module"]

last_stats = {"behaviours": 0, "steps_compared": 0, "state_mismatches": 0, "first_mismatch": None, "actions": 0, "orders": 0}


def parse_actions(text):
    acts = []
    for m in _RE_ACT.finditer(text):
        args = parse("<<" + m.group(2) + ">>") if m.group(2) else []
        acts.append((m.group(1), args))
    return acts


def schedule(acts):
    samples, randoms = [], []
    ops = {a: [] for a in range(1, NN + NH + 1)}
    i, n = 0, len(acts)
    while i < n:
        name, args = acts[i]
        if name != "StepBegin":
            i += 1
            continue
        consulted = []
        j = i + 1
        while j < n and acts[j][0] == "Consult":
            a, op = acts[j][1]
            consulted.append(a)
            ops[a].append(op)
            j += 1
        if j < n and acts[j][0] == "CollectDone":
            rest = [a for a in range(1, NN + 1) if a not in consulted]
            samples.append([a - 1 for a in consulted + rest])
            batch_order, per_batch = [], []
            k = j + 1
            while k < n and acts[k][0] in ("HandleBatch", "ConsultH", "HftDone"):
                nm, ar = acts[k]
                if nm == "HandleBatch":
                    batch_order.append(ar[0] - 1)
                    per_batch.append({"gate": ar[1], "hft": []})
                elif nm == "ConsultH":
                    per_batch[-1]["hft"].append(ar[0])
                    ops[ar[0]].append(ar[1])
                k += 1
            samples.append(batch_order)
            for b in per_batch:
                randoms.append(0.25 if b["gate"] else 0.75)
                if b["gate"]:
                    rest_h = [h for h in range(NN + 1, NN + NH + 1) if h not in b["hft"]]
                    samples.append([h - NN - 1 for h in b["hft"] + rest_h])
            i = k
        else:
            i = j
    return {"sample": samples, "random": randoms}, ops


def make_program(queue):
    def program(agent, markets):
        if not queue:
            return []
        op = queue.pop(0)
        mine = getattr(agent, "_rs_mine", None)
        if mine is None:
            mine = agent._rs_mine = []
        if op[0] == "none":
            return []
        if op[0] == "cancel":
            m, oid = op[1] - 1, op[2]
            for o in mine:
                if o.market_id == m and o.order_id == oid:
                    return [Cancel(order=o)]
            # the implementation has left the behaviour TLC chose (the order this agent is to cancel was never accepted under
            # that id): nothing to cancel; the state comparison reports the mismatch, the trace specifications judge the run
            last_stats["offschedule"] = last_stats.get("offschedule", 0) + 1
            return []
        _, m, buy, mo, px, vol, ttl = op
        o = Order(agent_id=agent.agent_id, market_id=m - 1, is_buy=bool(buy), kind=MARKET_ORDER if mo else LIMIT_ORDER,
                  volume=int(vol), price=None if mo else px * UNIT, ttl=(int(ttl) or None))
        mine.append(o)
        last_stats["orders"] += 1
        return [o]
    return program


def config():
    cfg = {"simulation": {"markets": ["M0", "M1"], "agents": ["N", "H"], "sessions": []},
           "N": {"class": "ScriptAgent", "numAgents": NN, "markets": ["M0", "M1"], "assetVolume": 50, "cashAmount": 50000, "script": {"pProbe": 0.0}},
           "H": {"class": "ScriptHFT", "numAgents": NH, "markets": ["M0", "M1"], "assetVolume": 50, "cashAmount": 50000, "script": {"pProbe": 0.0}}}
    for m in ("M0", "M1"):
        cfg[m] = {"class": "ProbeMarket", "tickSize": 1.0, "marketPrice": P0 * UNIT, "outstandingShares": 128}
    for i, s in enumerate(SIM_SESS):
        cfg["simulation"]["sessions"].append({"sessionName": i, "iterationSteps": s["steps"], "withOrderPlacement": s["place"],
                                              "withOrderExecution": s["exe"], "withPrint": False, "maxNormalOrders": s["maxN"],
                                              "maxHighFrequencyOrders": s["maxH"], "highFrequencySubmitRate": RATE[s["rate"]]})
    if HALT:
        cfg["HR"] = {"class": "TradingHaltRule", "targetMarkets": list(HALT["targets"]), "triggerChangeRate": HALT["rate"],
                     "haltingTimeLength": HALT["len"]}
        cfg["simulation"]["sessions"][0]["events"] = ["HR"]
    return cfg


class _StepSnap:
    """snapshots of every market at every step end, taken through a logger hook of the recorder"""


def _model_market(mkt):
    r = mkt["row"]
    return {"book": sorted((int(o["id"]), int(o["vol"])) for o in mkt["live"]),
            "row": [int(r["mkt"]), int(r["last"]), int(r["mid"]), int(r["eVol"]), int(r["eTot"]), int(r["nB"]), int(r["nS"])],
            "clock": int(mkt["clock"]), "run": bool(mkt["running"])}


def replay_behaviour(text, seed):
    states = parse_behaviour(text)
    if not states or states[-1].get("phase") != "done":
        return None, None
    # the action that produced each state, with its arguments, is carried by the history variable `act`
    acts = [(st["act"][0], list(st["act"][1:])) for st in states]
    forced, ops = schedule(acts)
    names = {}
    for a in range(1, NN + 1):
        names["N-%d" % (a - 1)] = make_program(ops[a])
    for h in range(NN + 1, NN + NH + 1):
        names["H-%d" % (h - NN - 1)] = make_program(ops[h])
    snaps = []

    class SnapLogger(probes.RecLogger):
        def process_market_step_end_log(self, log):
            super().process_market_step_end_log(log)
            m = log.market
            if m.market_id == len(probes.REC.sim.markets) - 1:      # after the last market's end record: the step is over
                snaps.append([snap_market(x, probes.REC.U(x.market_id)) for x in probes.REC.sim.markets])
    old = probes.RecLogger
    probes.RecLogger = SnapLogger
    try:
        run = drive_run.execute(config(), seed, forced_draws={"sample": [list(x) for x in forced["sample"]], "random": list(forced["random"])},
                                scripts=names)
    finally:
        probes.RecLogger = old
    last_stats["actions"] += len(acts)
    last_stats["halts"] = last_stats.get("halts", 0) + int(states[-1].get("hcnt", 0))
    model_steps = [states[i] for i, (nm, _) in enumerate(acts) if nm == "StepEnd"]
    impl_hold = [e["hold"] for e in run["ev"] if e["k"] == "stepE" and e["m"] == NM - 1]
    mism = None
    if run["abort"]:
        mism = {"what": "run aborted", "abort": run["abort"]}
    elif len(model_steps) != len(snaps):
        mism = {"what": "number of steps", "model": len(model_steps), "impl": len(snaps)}
    else:
        for k, ms in enumerate(model_steps):
            last_stats["steps_compared"] += 1
            mks = ms["mk"] if isinstance(ms["mk"], list) else [ms["mk"][i] for i in sorted(ms["mk"])]
            for mi, mm in enumerate(mks):
                want = _model_market(mm)
                sn = snaps[k][mi]
                got = {"book": sorted(map(tuple, sn["book"])), "row": sn["row"], "clock": sn["clock"], "run": sn["run"]}
                if want != got:
                    mism = {"what": "market %d after step %d" % (mi, k), "model": want, "impl": got}
                    break
            if mism:
                break
            led = ms["led"] if isinstance(ms["led"], list) else [ms["led"][i] for i in sorted(ms["led"])]
            want_h = [[int(row[0]) * 64] + [int(x) for x in row[1:]] for row in led]
            if want_h != impl_hold[k]:
                mism = {"what": "holdings after step %d" % k, "model": want_h, "impl": impl_hold[k]}
                break
    run["src"] = "tlc-system"
    return run, mism


def blame(mism):
    """A behaviour of the composed specification, forced through the runner, ended in another state than TLC computed:
    -> {property: short description}.  Holdings belong to C05; a market whose running flag differs to C16; a market whose
    book or series differ - orders matched that the specification leaves resting, or the reverse - to C09 and C16."""
    if mism is None:
        return {}
    what = mism.get("what", "")
    if what.startswith("holdings"):
        return {"C05": "holdings-" + what.split()[-1]}
    if what.startswith("market"):
        mo, im = mism.get("model", {}), mism.get("impl", {})
        step = what.split()[-1]
        if mo.get("run") != im.get("run"):
            # a market stopped where the specification has it running (or the reverse): the halt rule (C16), and with it
            # whether rounds follow acceptances (C09)
            return {"C16": "running-flag-step-" + step, "C09": "running-flag-step-" + step}
        return {"C09": "books-step-" + step, "C16": "books-step-" + step}
    return {"C09": what.replace(" ", "-")[:40], "C05": what.replace(" ", "-")[:40], "C16": what.replace(" ", "-")[:40]}


def runs(tier, seed, profiles=("plain", "halt")):
    num = 8 if tier == "quick" else 300
    last_stats.update(behaviours=0, steps_compared=0, state_mismatches=0, first_mismatch=None, actions=0, orders=0, halts=0)
    out = []
    for prof in profiles:
        mod = use_profile(prof)
        d = os.path.join(WORK, "simsys-%d-%s" % (os.getpid(), prof))
        shutil.rmtree(d, ignore_errors=True)
        os.makedirs(d)
        try:
            r = tlc.run_tlc(mod, mod + ".cfg", workers=1, timeout=5400, simulate="file=%s/tr,num=%d" % (d, num),
                            depth=700, seed=sub_seed(seed, "simsys", prof) % (2 ** 31), tag="sim-system-" + prof)
            if r.violation or (r.error and "Finished in" not in r.out):
                raise MachineryError("simulation of PamsSystem (%s) failed: %s" % (prof, r.violation or r.error))
            for f in sorted(glob.glob(os.path.join(d, "tr_*"))):
                run, mism = replay_behaviour(open(f).read(), sub_seed(seed, f) % (2 ** 31))
                if run is None:
                    continue
                run["src"] = "tlc-system" if prof == "plain" else "tlc-system-halt"
                run["mismatch"] = blame(mism)
                out.append(run)
                last_stats["behaviours"] += 1
                if mism is not None:
                    last_stats["state_mismatches"] += 1
                    if last_stats["first_mismatch"] is None:
                        last_stats["first_mismatch"] = mism
        finally:
            shutil.rmtree(d, ignore_errors=True)
    use_profile("plain")
    return out
