"""Market-level properties C01 C02 C03 C04 C08 C19 (and the market-level clauses of C06 C10 C16).

Pipeline: (1) TLC on the bounded design model PamsMarket (reference layer satisfies the property layer on
every reachable state), (2) histories executed on the REAL Market - random drivers, TLC-generated behaviours
of PamsMarket replayed into the code, arrival-order permutations, decision tables - (3) TLC validates every
recorded history against TraceBook, (4) verdicts -> exit code, evidence.
"""
import json
import os
import time

from . import evidence, judge, tlc
from .common import WORK, MachineryError, dumps, sub_seed

PROPS = ["C01", "C02", "C03", "C04", "C08", "C19"]
TRACE_KEYS = ("den", "p0", "fund0", "exact", "ev")
TRACE_DEFAULTS = {"halt": False}        # halt: the history is a market of a run with a trading halt rule

DESIGN = {
    "quick": [("MC_PamsMarket_quick", "MC_PamsMarket_quick.cfg", 600), ("MC_PamsMarket_zero", "MC_PamsMarket_zero.cfg", 600),
              ("MC_PamsMarket_jump", "MC_PamsMarket_jump.cfg", 900)],
    "thorough": [("MC_PamsMarket_quick", "MC_PamsMarket_quick.cfg", 600), ("MC_PamsMarket_zero", "MC_PamsMarket_zero.cfg", 600),
                 ("MC_PamsMarket_jump", "MC_PamsMarket_jump.cfg", 900),
                 ("MC_PamsMarket_medium", "MC_PamsMarket_medium.cfg", 1800),
                 ("MC_PamsMarket_thorough", "MC_PamsMarket_thorough.cfg", 3600)],
}
N_RANDOM = {"quick": 500, "thorough": 12000}
N_DEEP = {"quick": 100, "thorough": 6000}

LEVEL_TEXT = {
    "C01": "model_checking", "C02": "model_checking", "C03": "model_checking", "C04": "model_checking",
    "C08": "model_checking", "C19": "model_checking",
}


JUMP_PROPS = ("C03", "C04", "C08")     # the properties the clock-jump model adds something to (expiry, statistics, rounds after a jump)


def design_models(tier, prop=None):
    out = []
    if os.environ.get("VERIF_TRACES_ONLY") == "1":      # selftest: the design models do not depend on the code
        return [{"module": "skipped", "states": 0, "transitions": 0, "depth": 0, "wall_s": 0}]
    for mod, cfg, to in DESIGN[tier]:
        if mod == "MC_PamsMarket_jump" and prop is not None and prop not in JUMP_PROPS:
            continue
        r = tlc.run_tlc(mod, cfg, timeout=to, tag=mod)
        if not r.ok:
            raise MachineryError("design model %s: %s" % (mod, r.violation or r.error))
        out.append({"module": mod, "states": r.distinct, "transitions": r.generated, "depth": r.depth,
                    "wall_s": round(r.wall, 1)})
    return out


def build_histories(tier, seed, prop):
    from . import drive_book
    hs = []
    n = N_RANDOM[tier]
    for h in drive_book.generate(n, sub_seed(seed, "book-random")):
        h["src"] = "random"
        hs.append(h)
    # deep books: heaps of three and more levels, cancels of non-best orders followed by partial sweeps
    for h in drive_book.generate(N_DEEP[tier], sub_seed(seed, "book-deep"), flavour="deep"):
        h["src"] = "random-deep"
        hs.append(h)
    for h in drive_book.generate(N_DEEP[tier] // 2, sub_seed(seed, "book-penny"), flavour="penny"):
        h["src"] = "random-penny"
        hs.append(h)
    # deep books, rounds that touch only the head, then sweeps through several resting orders (no repairing cancels)
    for h in drive_book.generate((N_DEEP[tier] * 3) // 5, sub_seed(seed, "book-sweep"), flavour="sweep"):
        h["src"] = "random-sweep"
        hs.append(h)
    for h in drive_book.generate(N_DEEP[tier] // 2, sub_seed(seed, "book-farfine"), flavour="farfine"):
        h["src"] = "random-farfine"
        hs.append(h)
    for h in drive_book.generate(max(2, N_DEEP[tier] // 50), sub_seed(seed, "book-long"), flavour="long"):
        h["src"] = "random-long"
        hs.append(h)
    for h in drive_book.generate(N_DEEP[tier] // 2, sub_seed(seed, "book-jumpy"), flavour="jumpy"):
        h["src"] = "random-jumpy"
        hs.append(h)
    # market orders resting on both sides, partly filled, met by new arrivals
    for h in drive_book.generate(N_DEEP[tier] // 3, sub_seed(seed, "book-standoff"), flavour="standoff"):
        h["src"] = "random-standoff"
        hs.append(h)
    try:
        from . import replay_book
    except ImportError:
        replay_book = None
    if replay_book is not None:
        hs.extend(replay_book.histories(tier, seed))
    try:
        from . import tables_book
    except ImportError:
        tables_book = None
    if tables_book is not None:
        hs.extend(tables_book.histories(tier, seed, prop))
    return hs


def validate(hs, tag="book"):
    os.makedirs(WORK, exist_ok=True)
    verdicts = {}
    total_wall = 0.0
    # batches keep each JSON file below ~40 MB
    batch, size, start = [], 0, 0
    batches = []
    for i, h in enumerate(hs):
        line = dumps(dict({k: h[k] for k in TRACE_KEYS}, **{k: h.get(k, d) for k, d in TRACE_DEFAULTS.items()}))
        if size + len(line) > 40_000_000 and batch:
            batches.append((start, batch))
            batch, size, start = [], 0, i
        batch.append(line)
        size += len(line)
    if batch:
        batches.append((start, batch))
    for bi, (start, lines) in enumerate(batches):
        path = os.path.join(WORK, "%s-%d-%d.ndjson" % (tag, os.getpid(), bi))
        with open(path, "w") as f:
            f.write("\n".join(lines) + "\n")
        try:
            res, r = tlc.validate_traces("TraceBook", "TraceBook.cfg", path, len(lines), tag="TraceBook")
        finally:
            os.remove(path)
        total_wall += r.wall
        for tid, val in res.items():
            verdicts[start + tid - 1] = val
    return verdicts, total_wall


# ------------------------------------------------------------------------------------------------ statistics
def stats(hs):
    """Scenario classes actually exercised, counted from the recorded events (vacuity control)."""
    sets = {p: set() for p in PROPS}
    cls = {"rounds_with_fills": 0, "rounds_multi_fill": 0, "rounds_with_market_order": 0, "rounds_empty": 0,
           "cancels_of_nonresting": 0, "expiries": 0, "offgrid_submissions": 0, "negative_submissions": 0,
           "fills_while_crossed_accumulated": 0, "events": 0, "not_running_events": 0, "probes": 0}
    for h in hs:
        prev = None
        mo_ids = set()
        for e in h["ev"]:
            cls["events"] += 1
            k = e["k"]
            if k == "sub":
                if e["mo"] and e["out"] == "ok":
                    mo_ids.add(e["id"])
                if e["neg"]:
                    cls["negative_submissions"] += 1
                    sets["C04"].add(("neg", e["neg"], e["out"]))
                elif not e["mo"] and (e["req"] % h["den"] != 0 or not h["exact"]):
                    cls["offgrid_submissions"] += 1
                    sets["C19"].add((h["den"], e["req"], e["px"], e["buy"], h["exact"], h.get("tick")))
                elif not e["mo"]:
                    sets["C19"].add((h["den"], e["req"], e["px"], e["buy"], "grid"))
            elif k == "match":
                f = e["fills"]
                if f:
                    cls["rounds_with_fills"] += 1
                    if len(f) > 1:
                        cls["rounds_multi_fill"] += 1
                    if any(x[0] in mo_ids or x[1] in mo_ids for x in f):
                        cls["rounds_with_market_order"] += 1
                    pb = json.dumps(prev["book"]) if prev else ""
                    sig = (pb, json.dumps(f))
                    sets["C01"].add(sig)
                    if prev and len(prev["book"]) >= 3:
                        sets["C02"].add(sig)
                    sets["C04"].add(("fill",) + sig)
                else:
                    cls["rounds_empty"] += 1
                if prev and prev["dB"] and prev["dS"]:
                    sets["C03"].add((json.dumps(prev["dB"]), json.dumps(prev["dS"]), json.dumps(e["dB"]), json.dumps(e["dS"])))
            elif k == "can":
                if prev and all(b[0] != e["id"] for b in prev["book"]):
                    cls["cancels_of_nonresting"] += 1
                sets["C04"].add(("can", e["id"], e["vol"], json.dumps(prev["book"]) if prev else ""))
            elif k in ("tick", "jump"):
                if k == "jump":
                    cls["clock_jumps"] = cls.get("clock_jumps", 0) + 1
                cls["expiries"] += len(e["exp"])
                if e["exp"]:
                    sets["C04"].add(("exp", json.dumps(e["exp"]), e["clock"]))
            elif k == "probe":
                cls["probes"] += 1
            if "row" in e:
                if not e["run"]:
                    cls["not_running_events"] += 1
                if prev is None or prev["row"] != e["row"] or prev["dB"] != e["dB"] or prev["dS"] != e["dS"]:
                    sets["C08"].add((k, json.dumps(e["row"]), json.dumps(e["dB"]), json.dumps(e["dS"]), e["run"]))
                prev = e
    return {p: len(s) for p, s in sets.items()}, cls


RULES = {
    "C01": "distinct (book before the round, reported fills) pairs among matching rounds with at least one fill",
    "C02": "distinct rounds with at least one fill on a book of three or more resting orders (priority matters)",
    "C03": "distinct (depth before, depth after) pairs among rounds run on a book with both sides non-empty",
    "C04": "distinct terminal / accounting events: fills by (book, fills), cancels by (id, reported volume, book), expiry sets, negative submissions by kind and outcome",
    "C08": "distinct (event kind, series row, depth, running flag) observations that differ from the previous observation",
    "C19": "distinct (units per tick, requested price, accepted price, side) submissions of limit orders",
}


def sample_of(h, n=8):
    ev = []
    for e in h["ev"][:n]:
        ev.append({k: e[k] for k in e if k in ("k", "buy", "mo", "req", "px", "vol", "ttl", "id", "fills", "exp", "row", "book", "neg", "out", "on")})
    return {"src": h.get("src"), "den": h["den"], "p0": h["p0"], "exact": h["exact"], "first_events": ev}


# ------------------------------------------------------------------------------------------------ check
def cases_for(prop, hs, verdicts):
    out = []
    for i, h in enumerate(hs):
        sync, kv = verdicts[i]
        vd = kv.get(prop, "ok")
        out.append({"verdict": vd, "sig": {"src": h.get("src", "?"), "flavour": h.get("flavour", "")},
                    "replay": {"group": "book", "history": {k: h[k] for k in h if k != "ev"}}})
    return out


def check(prop, tier, seed, t0):
    from . import replay_book, tables_book
    models = design_models(tier, prop)
    extra_cov = {}
    extra_cases = []
    if prop in ("C02", "C19"):
        models += tables_book.table_models()
    if prop == "C02":
        vds, n_eval, wall, lines = tables_book.comparison_verdicts()
        for doc, vd in zip(lines, vds):
            side = "%s/%s" % ("buy" if doc["buy"] else "sell", doc["scale"])
            extra_cases.append({"verdict": vd, "sig": {"src": "comparison-table", "side": side},
                                "replay": {"group": "book", "table": "comparison", "side": side}})
        extra_cov["comparison_operator_evaluations"] = n_eval
    if prop == "C04":
        # run level: the runner must not accept an order handed in by an agent it does not name (TraceOwner)
        from . import drive_run, group_run
        sruns = drive_run.spoof_runs(40 if tier == "quick" else 1500, seed)
        sv, _ = group_run.validate(sruns, "TraceOwner")
        for i, r in enumerate(sruns):
            extra_cases.append({"verdict": sv[i][1].get("C04", "ok"), "sig": {"src": "run:spoof"},
                                "replay": {"group": "run", "cfg": r["cfg"], "seed": r["seed"], "scenario": None}})
        extra_cov["run_level_spoofing_scenarios"] = {
            "runs": len(sruns), "forged_orders_returned": sum(1 for r in sruns for e in r["ev"] if e["k"] == "ret"
                                                              and any(b[0] == "o" and b[8] != e["a"] for b in e["batch"])),
            "runs_refused_with_ValueError": sum(1 for r in sruns if r["abort"].startswith("ValueError"))}
    if prop == "C19":
        # run level: the order an order-mistake shock writes (a limit order created by a hook) is rounded like any other
        from . import drive_events, group_run
        eruns = drive_events.generate(40 if tier == "quick" else 1200, sub_seed(seed, "events", prop), kinds=("mistake", "mixed", "mistake"))
        ev_v, _ = group_run.validate(eruns, "TraceEvents")
        for i, r in enumerate(eruns):
            extra_cases.append({"verdict": ev_v[i][1].get("C19", "ok"), "sig": {"src": r["src"]},
                                "replay": {"group": "run", "cfg": r["cfg"], "seed": r["seed"], "scenario": None}})
        extra_cov["run_level_orders_written_by_hooks"] = {"runs": len(eruns)}
    if prop == "C03":
        # run level: rounds started by the runner while trading halts come and go (TraceEvents: no round ever raises in a run)
        from . import drive_events, group_run
        eruns = drive_events.generate(40 if tier == "quick" else 1200, sub_seed(seed, "events", prop), kinds=("halt", "haltx", "haltm", "mixed"))
        ev_v, _ = group_run.validate(eruns, "TraceEvents")
        for i, r in enumerate(eruns):
            extra_cases.append({"verdict": ev_v[i][1].get("C03", "ok"), "sig": {"src": r["src"]},
                                "replay": {"group": "run", "cfg": r["cfg"], "seed": r["seed"], "scenario": None}})
        extra_cov["run_level_rounds_under_trading_halts"] = {"runs": len(eruns), "aborted": sum(1 for r in eruns if r["abort"])}
    hs = build_histories(tier, seed, prop)
    verdicts, tlc_wall = validate(hs)
    if prop in ("C01", "C02", "C08"):
        # the books of every market of runs with the built-in events (orders rewritten by hooks before acceptance, halts,
        # high-frequency agents): the same clauses on books the RUNNER builds
        from . import drive_events, group_run
        eruns = drive_events.generate(30 if tier == "quick" else 900, sub_seed(seed, "events", prop), kinds=("plimit", "mixed", "halt", "plimit"))
        if prop == "C08":
            # ... and of runs whose sessions hand resting books over from a non-matching to a matching session
            from . import drive_run
            eruns += drive_run.handover_runs(24 if tier == "quick" else 600, seed)
        rhs, owner = group_run.book_histories(eruns)
        rv, w2 = validate(rhs, tag="evbook")
        tlc_wall += w2
        for i, h in enumerate(rhs):
            r = eruns[owner[i]]
            extra_cases.append({"verdict": rv[i][1].get(prop, "ok"), "sig": {"src": h["src"]},
                                "replay": {"group": "run", "cfg": r["cfg"], "seed": r["seed"], "scenario": None}})
        extra_cov["books_of_runs_with_built_in_events"] = {"runs": len(eruns), "market_histories": len(rhs)}
    cases = cases_for(prop, hs, verdicts) + extra_cases
    extra_cov["spec_to_code_replay"] = dict(replay_book.last_stats)
    viol, known, lines = judge.judge(prop, cases)
    for ln in lines:
        print(ln)
    nontriv, classes = stats(hs)
    ref_diff = sum(1 for i in range(len(hs)) if verdicts[i][1].get("REF", "ok") != "ok")
    desync = sum(1 for i in range(len(hs)) if not verdicts[i][0])
    if desync and viol == 0 and known == 0:
        # a desynchronised history must have been attributed to some property; if it was another one, say so
        print("note: %d histories desynchronised on a clause of another property" % desync)
    samples = [sample_of(h) for h in hs[:2]]
    srcs = {}
    for h in hs:
        srcs[h.get("src", "?")] = srcs.get(h.get("src", "?"), 0) + 1
    cov = {
        "states": sum(m["states"] for m in models), "transitions": sum(m["transitions"] for m in models),
        "traces_validated_against_impl": len(hs), "samples": samples,
        "evaluations": classes["events"], "distinct_nontrivial": nontriv[prop], "rule": RULES[prop],
        "exhaustive": True, "exhaustive_scope": "the bounded design models (TLC breadth-first search ran to completion); recorded traces are sampled",
        "design_models": models, "scenario_classes": classes, "trace_sources": srcs,
        "ref_layer_differences": ref_diff, "desynchronised_traces": desync,
        "trace_validation_wall_s": round(tlc_wall, 1),
    }
    cov.update(extra_cov)
    evidence.write(prop, tier, seed, "model_checking", cov, ASSUMPTIONS, time.time() - t0, viol)
    print("%s tier=%s: design states=%d, traces=%d, events=%d, violations=%d, known=%d, REF-differences=%d (%.0fs)" % (
        prop, tier, cov["states"], len(hs), classes["events"], viol, known, ref_diff, time.time() - t0))
    return 1 if viol else 0


ASSUMPTIONS = [
    "TLC explores the bounded design model exhaustively for the constants in its .cfg; nothing is claimed beyond them",
    "prices are finite and positive, volumes positive, ttl >= 1 or none (the admissible inputs of Order)",
    "exact configurations use dyadic ticks so that IEEE arithmetic in the code is exact and equality is the oracle; decimal ticks use a rounded projection for the book logic and rational side conditions for C19",
    "observation through public API: Market getters, OrderBook.priority_queue / get_best_order, Order.volume / is_canceled, a Logger subclass",
]


def replay(prop, path):
    from . import book_session
    doc = json.load(open(path))
    if doc["replay"].get("group") == "run":
        from . import group_run
        return group_run.replay(prop, path)
    if doc["replay"].get("table") == "comparison":
        from . import tables_book
        vds = tables_book.comparison_verdicts()[0]
        bad = [v for v in vds if v != "ok"]
        print("comparison table: %s" % vds)
        if bad:
            print("VIOLATION property=%s replay=%s" % (prop, path))
        return 1 if bad else 0
    h = book_session.replay_ops(doc["replay"]["history"])
    verdicts, _ = validate([h], tag="replay")
    sync, kv = verdicts[0]
    vd = kv.get(prop, "ok")
    print("replayed %s: verdict for %s = %s (sync=%s)" % (path, prop, vd, sync))
    if vd != "ok":
        print("VIOLATION property=%s replay=%s" % (prop, path))
        return 1
    return 0
