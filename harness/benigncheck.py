"""False-alarm test: apply a BEHAVIOUR-PRESERVING refactoring (from a sub-agent's worktree) to /repo, run every registered
quick check, ALWAYS revert.  Every check must exit 0.  usage: python -m harness.benigncheck <worktree> <name> [props...]"""
import json
import os
import subprocess
import sys
import time

from .common import VERIF
from .main import GROUP_OF


def main():
    wt, name = sys.argv[1], sys.argv[2]
    props = sys.argv[3:] or sorted(GROUP_OF)
    out = os.path.join(VERIF, "seeded", "benign-" + name)
    os.makedirs(out, exist_ok=True)
    diff = subprocess.run(["git", "diff", "--", "pams"], cwd=wt, stdout=subprocess.PIPE, text=True).stdout
    if not diff.strip():
        print("no change in", wt)
        return 2
    open(os.path.join(out, "patch.diff"), "w").write(diff)
    for f in ("REFACTOR.md",):
        if os.path.exists(os.path.join(wt, f)):
            open(os.path.join(out, f), "w").write(open(os.path.join(wt, f)).read())
    if subprocess.run(["git", "-C", "/repo", "status", "--porcelain"], stdout=subprocess.PIPE, text=True).stdout.strip():
        print("refusing: /repo dirty")
        return 2
    p = subprocess.run(["git", "-C", "/repo", "apply", os.path.join(out, "patch.diff")], stdout=subprocess.PIPE, stderr=subprocess.STDOUT, text=True)
    if p.returncode != 0:
        print("patch does not apply:", p.stdout[:300])
        return 2
    res = {}
    try:
        for prop in props:
            t0 = time.time()
            r = subprocess.run([os.path.join(VERIF, "check"), prop, "--tier", "quick", "--no-evidence"], cwd=VERIF,
                               env=dict(os.environ, VERIF_TRACES_ONLY="1"), stdout=subprocess.PIPE, stderr=subprocess.STDOUT, text=True)
            lines = [ln for ln in r.stdout.splitlines() if ln.startswith(("VIOLATION", "  clause", "MACHINERY", "KNOWN"))][:4]
            res[prop] = {"exit": r.returncode, "lines": lines, "wall_s": round(time.time() - t0, 1)}
            print("%s %s -> exit %d %s" % (name, prop, r.returncode, lines[:2] if r.returncode else ""), flush=True)
    finally:
        subprocess.run(["git", "-C", "/repo", "checkout", "--", "."])
    alarms = [p for p, r in res.items() if r["exit"] != 0]
    json.dump({"name": name, "kind": "behaviour-preserving refactoring", "checks": res, "alarms": alarms,
               "checked_at": time.strftime("%Y-%m-%d %H:%M:%S")}, open(os.path.join(out, "meta.json"), "w"), indent=1)
    print("benign %s: alarms=%s" % (name, alarms))
    return 1 if alarms else 0


if __name__ == "__main__":
    sys.exit(main())
